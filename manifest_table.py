NOTES = 'See DESIGN.md. All checks run the real maltoolbox code from /repo\'s working tree; exploration is exhaustive inside the bounds each evidence file reports.'
NOT_YET = {}
CHECKS['C05'] = ('model_checking',
  'explicit-state BFS over API-call histories of the real Model, lock-step reference model, deviation-bounded',
  'Every history of Model/AttackerAttachment calls up to the reported depth and deviation budget over a <=3-asset universe is executed on the real code and compared step by step with an abstract reference model (ids, names, links, neighbours, entry points, failing calls change nothing); invalid calls include stale objects, associations with members that are not assets of the model, live asset objects added again, attachments equal to a live one, attachments that were given entry points before being added, and attachments added again.',
  'Trusted: CPython, python_jsonschema_objects. Bounded: depth/deviation/universe as reported in evidence; nothing claimed above the bound.',
  'DESIGN.md 3/C05')
CHECKS['C01'] = ('model_checking',
  'bounded-exhaustive enumeration of (step expression, instance model) pairs executed on the real generator, compared with interval set semantics',
  'Every statically well-typed step expression up to the operator bound (as generated attack steps of the SEM language family) is evaluated by the real AttackGraph generator on every instance model up to the asset/link bound; each node\'s child set must lie between the reference lower/upper semantics (equal when no * occurs), parents must be the converse, generation must terminate (also on navigation chains of 4..40 hops and set operators nested 4..12 deep over densely linked models, within a CPU-time limit).',
  'Trusted: CPython, python_jsonschema_objects, the 100-line reference evaluator (self-checked by algebraic laws). Set operators are applied per start asset (MAL semantics).',
  'DESIGN.md 3/C01')
CHECKS['C03'] = ('model_checking',
  'explicit-state BFS to closure over lookup/regenerate/generate histories, one transition system per enumerated inheritance shape, reference fold as oracle',
  'For every inheritance shape (absent / no-reaches / -> / +> at each of 4-6 levels incl. siblings) the real language graph is driven through every operation (resolve each type, regenerate, rebuild, build classes, generate attack graphs); the search closes at depth 1 with one state per language iff the lookup is pure, which covers histories of any length; every answer is compared with two independently written formulations of the root-down fold; a 400-level inheritance chain must load under a recursion limit of 350.',
  'Trusted: the 30-line reference fold (two formulations cross-checked). Metadata carried by redefinitions is not compared.',
  'DESIGN.md 3/C03')
CHECKS['C02'] = ('model_checking',
  'bounded-exhaustive enumeration of (language, model) pairs executed on the real generator, node set / attributes / lookups compared with reference fold and set semantics',
  'Every INH inheritance shape x 8 step kinds (or/and/defense with every TTC form/exist/notExist, tags, MITRE) x models with every name/id/defense-value combination (incl. rename collisions, names containing ":"), plus exist/notExist steps whose requirement is every well-typed expression up to the bound over every SEM model up to the bound: node set, attributes, defense/existence status, unique ids and full names, lookups by id and full name.',
  'Trusted: reference fold and reference set semantics. Conflicting metadata on re-declarations is not ranked (every re-declaration repeats type/TTC/tags/meta).',
  'DESIGN.md 3/C02')
CHECKS['C08'] = ('model_checking',
  'bounded-exhaustive enumeration of synthetic attack graphs x all storage orders of the node list, compared with a brute-force-validated greatest-fixed-point reference',
  'Every attack graph with <=3 nodes (16 node kinds, every subset of the n^2 edges incl. self-loops and cycles) and every loop-free 4-node graph over 5 kinds is analysed by the real apriori analyser under EVERY permutation of graph.nodes (the schedule of its worklist); labels must equal the greatest fixed point of the stated equations and be identical across orders, also when the steps already carry labels (all False; those of an analysis of the same graph with every status flipped) and on chains / ladders of 1500 and 6000 steps. The reference iteration is itself validated against brute force over all labellings.',
  'Trusted: 60-line reference (validated by brute force each run). TTC "is a probability distribution" = named function other than Enabled/Disabled, alone or as operand of an arithmetic TTC expression.',
  'DESIGN.md 3/C08')
CHECKS['C09'] = ('model_checking',
  'explicit-state BFS over API-call histories of real attack graphs, structural invariants in every state plus functional reference per operation, deviation-bounded',
  'Every history (to the reported depth / deviation budget) of generate, regenerate, add/remove node, attach/add/remove attacker, compromise/undo, analyse, prune, deep copy and save/load over graphs generated from two small languages is executed on the real code; in every state all child/parent references are inside the graph and mirrored, lookups by id / full name / attacker id are exact for present and for stale keys, attackers and nodes only reference live objects; a regenerated graph must equal a freshly generated one. The alphabet also hands removed and live node / attacker objects back to the graph passes unknown ids after known ones (a rejected call changes nothing) and adds attackers that were constructed with entry points / reached steps already filled in.',
  'Trusted: CPython; ids chosen automatically are only constrained to be unique; list orders not compared.',
  'DESIGN.md 3/C09')
CHECKS['C11'] = ('model_checking',
  'explicit-state BFS over compromise/undo/attach/add/remove-attacker histories on real attack graphs, invariant + functional reference',
  'Same engine as C09 with an attacker-heavy alphabet: in every reached state reached_attack_steps and compromised_by (and is_compromised_by) agree; repeated compromise / vacuous undo change nothing; remove_attacker leaves no node compromised by it; attach_attackers creates exactly one attacker per model attacker whose entry points and reached steps are exactly the existing nodes named. Attackers that compare equal (same name, no id yet; an equal copy of a live attacker) must be told apart.',
  'Trusted: CPython. Bounded by depth / deviations / 3 attackers as reported.',
  'DESIGN.md 3/C11')
CHECKS['C13'] = ('model_checking',
  'bounded-exhaustive enumeration of labelled synthetic graphs x all storage orders x attacker placement, exact survivor-set oracle plus C09 invariants',
  'Every labelled attack graph with <=3 nodes over 12 (type, viable, necessary) kinds and every edge subset, plus structured 4- and 5-node families, is pruned by the real code under every order of graph.nodes, with and without an attacker on a prunable node: the survivors must be exactly the nodes that are not (or/and and (non-viable or unnecessary)), labels unchanged, and all C09 structural invariants must hold afterwards.',
  'Trusted: CPython. n>=4 only over structured edge shapes in the quick tier.',
  'DESIGN.md 3/C13')
CHECKS['C14'] = ('model_checking',
  'every state reached by the C09 history search is deep-copied; identity audit + every single mutation on either side with before/after comparison of the other side',
  'For every distinct attack-graph state reached by the bounded history search: the deep copy has equal observation, counters and lookups, shares the model and language graph but no node, attacker or per-node container (children, parents, compromised_by, tags, extras, ttc incl. arguments), all its references stay inside the copy, and every single operation of the C09 alphabet plus five in-place edits applied to one side leaves the other side unchanged.',
  'Trusted: CPython. Pairs of mutations only in the thorough tier.',
  'DESIGN.md 3/C14')
CHECKS['C10'] = ('model_checking',
  'every attack-graph state reached by the history search x {json, yml} x {model given, absent}: typed save/load round trip compared attribute by attribute',
  'Every distinct attack-graph state reached by the bounded C09 search (attackers attached/added/compromised, analysed, pruned, copied, already loaded once), as is and decorated with extras/tags/MITRE/false flags, is written to JSON and YAML and loaded back with and without the model: node ids, names, types, TTC, statuses and flags with their Python types, tags as a list of strings, extras, edge sets, attackers with entry points and reached steps, asset binding, and second-generation stability.',
  'Trusted: json, PyYAML. Edge multiplicity and node.attributes are not part of the file format and not compared.',
  'DESIGN.md 3/C10')
CHECKS['C12'] = ('model_checking',
  'bounded-exhaustive enumeration of labelled synthetic graphs x all compromise sequences, queries compared with a 3-line reference after every step',
  'Every graph with <=3 nodes over 14 kinds (or/and with arbitrary viability/necessity flags, defenses with status 0/0.5/1 and suppress tag), every edge subset, every compromise sequence up to the bound (second attacker present): traversability of every node, the attack surface, the incrementally updated surface vs the recomputed one (also with one list object passed as surface and as new nodes), defense surface, enabled defenses, and the graph observation before/after every query.',
  'Trusted: the reference definitions copied from the property statement.',
  'DESIGN.md 3/C12')
CHECKS['C07'] = ('model_checking',
  'every distinct model content reached by the history search, plus directly built decorated models, x formats x file key orders: save/load round trip compared attribute by attribute',
  'Every distinct model reached by bounded histories of add/remove asset/association/attacker/entry-point calls (id gaps, explicit/zero/negative ids, renamed assets, duplicate-named association classes, several attackers) and a family of models with YAML-significant/unicode names, non-default defenses, asset and association extras is saved to .json/.yml/.yaml and loaded back (content equality incl. every defense value, extras, entry points; second save identical); every permutation of the asset mapping in a hand-written file and the type-only shorthand must load to the model described.',
  'Trusted: json, PyYAML, python_jsonschema_objects. Byte layout of files not compared.',
  'DESIGN.md 3/C07')
CHECKS['C04'] = ('exploration',
  'bounded-exhaustive enumeration of programs generated from specifications (expression / TTC trees, declaration forms, include layouts), print-compile round trip as oracle',
  'Every step-expression tree up to the operator bound in the four contexts and list positions, every TTC tree up to the bound, all 49 multiplicity form pairs, the product of step / asset / category / association forms, every include layout of a 6-declaration program (flat, repeated, nested, sibling, sub-directories, relative to the including file, cyclic, a decoy file of the same name next to the root, a re-used compiler) and both shipped .mar specifications are printed with minimal parentheses and compiled by the real compiler; the result must equal the specification (dict equality incl. list order), layouts must agree.',
  'Trusted: the 150-line unparser (validated by the exact round trip of both malc-produced .mar specifications), ANTLR runtime and generated parser.',
  'DESIGN.md 3/C04')
CHECKS['C17'] = ('fault_enumeration',
  'exhaustive single-token fault enumeration (delete / truncate / swap / insert every token type / reserved-word substitution) over 6 base programs, root and included; grammar verdict as oracle',
  'Every single-token fault of six programs that together use every grammar rule (and every pair of delete/swap x delete/swap/truncate faults of the smallest, thorough tier) is classified by the repository\'s own ANTLR lexer+parser with a counting listener and a check that the whole token stream was consumed (the start rule has no EOF); every text the grammar rejects must make MalCompiler.compile and LanguageGraph.from_mal_spec raise, both as the root file and as a file included by a valid root.',
  'Trusted: the generated lexer/parser as the definition of the grammar. Texts that stay grammatical are counted and skipped.',
  'DESIGN.md 3/C17')
CHECKS['C15'] = ('exploration',
  'bounded-exhaustive enumeration of languages (expression chunks, inheritance shapes, class families, shipped specs), every single dangling reference, and the C01 model space for edge prediction',
  'For every enumerated language the real language graph is compared with a reference (assets, super/sub links, subtype closure for every pair, per-asset associations, association lookup for every (field, field, type, type) quadruple in both orientations, exposed steps, step links equal to the statically typed targets, every link mirrored); every single reference replaced by an unknown name must be reported; every attack-graph edge over the C01 model space must be predicted by a language-graph link to a step owned by the target type or an ancestor.',
  'Trusted: reference typing rules (malc\'s). Dangling names in requires clauses / unused variables are outside the statement. Content of dependency chains is not compared.',
  'DESIGN.md 3/C15')
CHECKS['C06'] = ('exploration',
  'bounded-exhaustive enumeration of languages x construction attempts (types, field sizes 0..max+1, repeated assets, duplicate links, defense values), accepted iff allowed by the language',
  'For every language of the CLS family (inherited / overridden / extended defenses with every TTC form, all 49 multiplicity form pairs, same-named associations over different type pairs, over the same pair in both directions and over the same pair with different field names, joined class names that coincide, a language without associations) and the OPS languages: asset classes and defense properties with defaults, every defense value inside and outside [0,1] (incl. inf, -inf, nan) by constructor and assignment, association classes via signature lookup with their two fields, and per association class every construction attempt over every asset type (declared, subtype, supertype, sibling, unrelated), sizes up to max+1, repeated assets and duplicate links; an attempt must be accepted exactly when the language allows it and a rejected attempt must leave the model unchanged.',
  'Trusted: python_jsonschema_objects validation (checked end to end through what maltoolbox builds from it). Minimum multiplicities are not demanded. Known finding (KNOWN_FINDINGS.txt): NaN is accepted as a defense value.',
  'DESIGN.md 3/C06')
CHECKS['C16'] = ('exploration',
  'complete run of a finite configuration grid (cells x entry paths x repetitions x process layouts x hash seeds) in subprocesses, hash equality within each cell',
  'Every (language, model) cell (SEM, INH, OPS, GOPS, CLS languages and coreLang with the shipped example model) is generated through the direct API (from the in-memory model with int / bool / float defense values and from the saved file) and through create_attack_graph from a .mar and from a .mal file, twice per process, with all cells in one process in both orders and with one fresh process per cell, under several PYTHONHASHSEED values; all serialised graphs of a cell must be identical, the model serialisation and the language specification must be unchanged by generation + attach + analysis, and two graphs built from one model must share no node.',
  'Trusted: the OS process boundary and sha256. The grid is finite and run completely; other hash seeds / languages are outside it.',
  'DESIGN.md 3/C16')
CHECKS['C18'] = ('model_checking',
  'every distinct model content reached by the history search is emitted through inverse translators (0.0.39 json/yaml, .sCAD) and loaded by the legacy loaders; normal-form equality with the native load',
  'Every distinct model reached by bounded edit histories (id gaps, zero/negative/explicit ids, multi-member and duplicate-named associations incl. links between subtypes, several attackers with several entry points per asset) plus a decorated family is written in the 0.0.39 layout (json, yaml, nested and inline association fields) and as a .sCAD archive (both orientations of every association element) and loaded through the legacy loaders; assets with defenses (also defenses whose names start with a capital letter), pairwise links and entry points must equal those of the native load.',
  'Trusted: the two 40-line emitters (inverse of the loaders\' documented conventions, shaped after the shipped fixtures). Attacker names and model name are not compared for .sCAD.',
  'DESIGN.md 3/C18')
CHECKS['C19'] = ('model_checking',
  'recording stand-in for the database driver; every reached model / attack-graph state exported and compared; import replayed under every permutation of the answer rows',
  'py2neo.Graph is replaced by a recording stand-in that answers the two Cypher query shapes get_model sends with their Cypher meaning: for every distinct model reached by bounded edit histories (plus pairs linked by two association types, one type in both directions, self-links, same-named associations between subtypes) the created Subgraph must hold one node per asset and one relationship per direction of every linked pair labelled with the field name; get_model against what was exported must reconstruct the same assets and links under EVERY order of the answer rows, and also when the attack graph of the model was ingested into the same database; every attack-graph state of the C09 search is exported and compared node by node and edge by edge.',
  'Trusted: py2neo Node/Relationship/Subgraph and the stand-in\'s reading of the two Cypher query shapes and of py2neo\'s label type check. Defense values and attackers are not exported by the library.',
  'DESIGN.md 3/C19')
