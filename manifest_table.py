NOTES = 'See DESIGN.md. All checks run the real maltoolbox code from /repo\'s working tree; exploration is exhaustive inside the bounds each evidence file reports.'
NOT_YET = {}
CHECKS['C05'] = ('model_checking',
  'explicit-state BFS over API-call histories of the real Model, lock-step reference model, deviation-bounded',
  'Every history of Model/AttackerAttachment calls up to the reported depth and deviation budget over a <=3-asset universe is executed on the real code and compared step by step with an abstract reference model (ids, names, links, neighbours, entry points, failing calls change nothing).',
  'Trusted: CPython, python_jsonschema_objects. Bounded: depth/deviation/universe as reported in evidence; nothing claimed above the bound.',
  'DESIGN.md 3/C05')
