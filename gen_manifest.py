"""Regenerates MANIFEST.json from the table below (keeps it valid at all times)."""
import json, os
PY = '/venv/bin/python -m mc.run'
CHECKS = {
 # id: (level, technique, text, note, design_ref)
}
exec(open(os.path.join(os.path.dirname(__file__), 'manifest_table.py')).read())
props = [json.loads(l)['id'] for l in open(os.path.join(os.path.dirname(__file__), 'properties.jsonl'))]
checks, na = [], []
for p in props:
    if p in CHECKS:
        level, technique, text, note, ref = CHECKS[p]
        checks.append({
            'property_id': p,
            'quick_cmd': f'{PY} {p} --tier quick',
            'thorough_cmd': f'{PY} {p} --tier thorough',
            'evidence_file': f'/verif/evidence/{p}.json',
            'replay_cmd_template': f'{PY} {p} --replay {{path}}',
            'engine': 'mc',
            'level_claimed': {'category': level, 'text': text, 'design_ref': ref},
            'level_note': note,
            'technique': technique,
        })
    else:
        na.append({'property_id': p, 'reason': NOT_YET.get(p, 'check not built yet in this round; planned in DESIGN.md section 3')})
m = {
 'version': 1,
 'setup_cmd': '/venv/bin/python -c "import maltoolbox, antlr4, yaml, py2neo, python_jsonschema_objects"',
 'hooks': {'guard': 'MAL_LANG_MAL_TOOLBOX_VERIF', 'enable': 'no source hooks: checks import /repo\'s working tree through the editable install (nothing to build); the guard variable is exported by the runner but read by no repository code',
           'baseline_off_cmd': 'cd /repo && /venv/bin/python -m pytest -ra -q -p no:cacheprovider --timeout=900 --continue-on-collection-errors',
           'source_commits': [], 'add_only': True},
 'engines': [{'name': 'mc', 'path': '/verif/mc', 'serves_properties': sorted(CHECKS),
              'kind_free_text': 'hand-written explicit-state explorer for Python: engine H (BFS over API-call histories on the real objects with replay, lock-step reference models, deviation bounding) and engine E (bounded-exhaustive enumeration of inputs/programs/storage orders/faults)'}],
 'checks': checks,
 'notes': NOTES,
 'not_applicable': na,
}
json.dump(m, open(os.path.join(os.path.dirname(__file__), 'MANIFEST.json'), 'w'), indent=1)
print('checks', len(checks), 'not_applicable', len(na))
