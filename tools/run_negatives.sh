#!/bin/bash
# Runs the property-preserving ("negative") patches in mutants/negative against the checks that touch the
# code they change: every check must stay silent.  Writes mutants/NEGATIVE_REPORT.json.
cd /verif
declare -A P
P[N1_model_ids_start_at_100]="C05 C07 C02 C18"
P[N2_graph_ids_start_elsewhere]="C09 C10 C14 C02 C11"
P[N3_rename_private_indexes]="C09 C14 C10 C13"
P[N4_rename_duplicates_with_underscore]="C05 C02 C07"
P[N5_other_exception_types]="C05 C06"
P[N6_rename_type_to_association]="C05 C06 C07"
P[N7_no_duplicate_edges]="C01 C10 C09 C15"
echo "{" > mutants/NEGATIVE_REPORT.json
first=1
for n in "${!P[@]}"; do
  out=$(tools/mutant.py mutants/negative/$n.diff ${P[$n]} --no-tests)
  [ $first = 0 ] && echo "," >> mutants/NEGATIVE_REPORT.json
  first=0
  echo "\"$n\": $out" >> mutants/NEGATIVE_REPORT.json
  echo "$n: $(echo "$out" | grep -c '"rc": 0') silent of $(echo ${P[$n]} | wc -w)"
done
echo "}" >> mutants/NEGATIVE_REPORT.json
