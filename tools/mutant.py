#!/venv/bin/python
"""Mutant / seeded-change driver (DESIGN 2.9).

  tools/mutant.py PATCH PROP [PROP ...] [--no-tests] [--tier quick] [--seeds 0,1] [--reverse]

Creates a scratch git worktree of /repo outside /repo and /verif, applies PATCH (or reverts it
with --reverse, to mutate by undoing a fix commit), runs the repository's own test suite against
it (must still pass), runs the requested checks with MC_REPO pointing at the worktree (evidence and
replays go to a scratch output dir, never to /verif/evidence), removes the worktree, prints a JSON
summary.
"""
import argparse
import json
import os
import shutil
import subprocess
import sys
import tempfile

VERIF = os.path.dirname(os.path.dirname(os.path.abspath(__file__)))
PY = '/venv/bin/python'


def sh(cmd, **kw):
    return subprocess.run(cmd, shell=isinstance(cmd, str), text=True, capture_output=True, **kw)


def main():
    ap = argparse.ArgumentParser()
    ap.add_argument('patch')
    ap.add_argument('props', nargs='+')
    ap.add_argument('--no-tests', action='store_true')
    ap.add_argument('--tier', default='quick')
    ap.add_argument('--seeds', default='0')
    ap.add_argument('--reverse', action='store_true')
    ap.add_argument('--keep', action='store_true')
    a = ap.parse_args()
    wt = tempfile.mkdtemp(prefix='mutwt_')
    os.rmdir(wt)
    out = tempfile.mkdtemp(prefix='mutout_')
    summary = {'patch': a.patch, 'props': {}}
    try:
        r = sh(['git', '-C', '/repo', 'worktree', 'add', '--detach', wt, 'HEAD'])
        if r.returncode:
            print(r.stderr); return 2
        r = sh(['git', '-C', wt, 'apply'] + (['-R'] if a.reverse else []) + [os.path.abspath(a.patch)])
        if r.returncode:
            print('patch does not apply:', r.stderr); return 2
        env = dict(os.environ, PYTHONPATH=wt, PYTHONDONTWRITEBYTECODE='1')
        if not a.no_tests:
            r = sh([PY, '-m', 'pytest', '-q', '-x', '-p', 'no:cacheprovider', '--timeout=900'], cwd=wt, env=env)
            tail = (r.stdout.strip().splitlines() or [''])[-1]
            summary['tests'] = tail
            summary['tests_pass'] = r.returncode == 0
            if r.returncode:
                print(r.stdout[-2000:])
        for p in a.props:
            runs = []
            for seed in a.seeds.split(','):
                env2 = dict(os.environ, MC_REPO=wt, MC_OUT=out, VERIF_SEED=seed, PYTHONDONTWRITEBYTECODE='1')
                r = sh([PY, '-m', 'mc.run', p, '--tier', a.tier], cwd=VERIF, env=env2)
                viol = [l for l in r.stdout.splitlines() if l.startswith('VIOLATION')]
                keys = [l.strip() for l in r.stderr.splitlines() if l.strip().startswith('violation key=')]
                last = (r.stdout.strip().splitlines() or [''])[-1]
                runs.append({'seed': seed, 'rc': r.returncode, 'violations': len(viol),
                             'keys': keys[:6], 'summary': last,
                             'stderr_tail': r.stderr[-600:] if r.returncode not in (0, 1) else ''})
            summary['props'][p] = runs
    finally:
        if not a.keep:
            sh(['git', '-C', '/repo', 'worktree', 'remove', '--force', wt])
            shutil.rmtree(wt, ignore_errors=True)
            sh(['git', '-C', '/repo', 'worktree', 'prune'])
            shutil.rmtree(out, ignore_errors=True)
    print(json.dumps(summary, indent=1))
    return 0


if __name__ == '__main__':
    sys.exit(main())
