#!/bin/bash
# runs every thorough tier once, sequentially, and prints one timing line per property
for p in C03 C04 C06 C13 C16 C17 C19 C11 C12 C08 C09 C10 C14 C15 C18 C07 C02 C05 C01; do
  s=$(date +%s)
  /venv/bin/python -m mc.run $p --tier thorough > thorough_$p.log 2>&1
  rc=$?
  e=$(date +%s)
  echo "THOROUGH $p rc=$rc wall=$((e-s))s $(tail -1 thorough_$p.log)"
done
