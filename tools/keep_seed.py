#!/venv/bin/python
"""tools/keep_seed.py SEED_DIR NAME PROP[,PROP...] [--note TEXT]

Confirms a seeded change independently and stores it under /verif/seeded/NAME/:
  1. patch applies to /repo HEAD in a scratch worktree (outside /repo and /verif)
  2. the repository test-suite passes with it
  3. demo.py exits non-zero with the change and 0 on the unchanged tree
  4. the quick checks of the given properties are run against it (two seeds)
Then removes the worktree.
"""
import argparse
import json
import os
import shutil
import subprocess
import sys
import tempfile

VERIF = os.path.dirname(os.path.dirname(os.path.abspath(__file__)))
PY = '/venv/bin/python'


def sh(cmd, **kw):
    return subprocess.run(cmd, text=True, capture_output=True, **kw)


def main():
    ap = argparse.ArgumentParser()
    ap.add_argument('seed_dir')
    ap.add_argument('name')
    ap.add_argument('props')
    ap.add_argument('--note', default='')
    ap.add_argument('--seeds', default='0,3')
    a = ap.parse_args()
    props = a.props.split(',')
    meta = json.load(open(os.path.join(a.seed_dir, 'meta.json')))
    wt = tempfile.mkdtemp(prefix='seedwt_')
    os.rmdir(wt)
    out = tempfile.mkdtemp(prefix='seedout_')
    ran = []
    ok = True
    try:
        assert sh(['git', '-C', '/repo', 'worktree', 'add', '--detach', wt, 'HEAD']).returncode == 0
        r = sh(['git', '-C', wt, 'apply', os.path.join(os.path.abspath(a.seed_dir), 'patch.diff')])
        if r.returncode:
            print('patch does not apply', r.stderr)
            return 2
        env = dict(os.environ, PYTHONPATH=wt, PYTHONDONTWRITEBYTECODE='1')
        r = sh([PY, '-m', 'pytest', '-q', '-p', 'no:cacheprovider', '--timeout=900'], cwd=wt, env=env)
        tests = (r.stdout.strip().splitlines() or ['?'])[-1]
        ran.append(f'cd <worktree> && PYTHONPATH=<worktree> {PY} -m pytest -q -p no:cacheprovider  ->  {tests}')
        if r.returncode:
            ok = False
        demo = os.path.join(os.path.abspath(a.seed_dir), 'demo.py')
        scratch = tempfile.mkdtemp(prefix='seeddemo_')
        r1 = sh([PY, demo], cwd=scratch, env=env)
        r0 = sh([PY, demo], cwd=scratch, env=dict(os.environ, PYTHONDONTWRITEBYTECODE='1'))
        shutil.rmtree(scratch, ignore_errors=True)
        ran.append(f'demo.py with the change -> exit {r1.returncode}; on the unchanged tree -> exit {r0.returncode}')
        if r1.returncode == 0 or r0.returncode != 0:
            ok = False
            print('DEMO PROBLEM', r1.returncode, r0.returncode, r1.stdout[-500:], r1.stderr[-500:], r0.stderr[-500:])
        results = {}
        for p in props:
            for seed in a.seeds.split(','):
                env2 = dict(os.environ, MC_REPO=wt, MC_OUT=out, VERIF_SEED=seed, PYTHONDONTWRITEBYTECODE='1')
                r = sh([PY, '-m', 'mc.run', p, '--tier', 'quick'], cwd=VERIF, env=env2)
                keys = [l.strip().split(':', 1)[0].replace('violation key=', '') + ':' + l.strip().split(':', 1)[1].split(': ')[0]
                        for l in r.stderr.splitlines() if l.strip().startswith('violation key=')]
                results.setdefault(p, []).append({'VERIF_SEED': int(seed), 'exit': r.returncode,
                                                  'violation_lines': sum(1 for l in r.stdout.splitlines() if l.startswith('VIOLATION')),
                                                  'keys': keys[:5]})
                ran.append(f'MC_REPO=<worktree> VERIF_SEED={seed} {PY} -m mc.run {p} --tier quick -> exit {r.returncode}')
    finally:
        sh(['git', '-C', '/repo', 'worktree', 'remove', '--force', wt])
        shutil.rmtree(wt, ignore_errors=True)
        sh(['git', '-C', '/repo', 'worktree', 'prune'])
        shutil.rmtree(out, ignore_errors=True)
    dest = os.path.join(VERIF, 'seeded', a.name)
    os.makedirs(dest, exist_ok=True)
    shutil.copy(os.path.join(a.seed_dir, 'patch.diff'), dest)
    shutil.copy(os.path.join(a.seed_dir, 'demo.py'), dest)
    head = sh(['git', '-C', '/repo', 'rev-parse', '--short', 'HEAD']).stdout.strip()
    m = {'property': meta.get('property', props[0]), 'breaks': props, 'summary': meta.get('summary'),
         'needs_to_manifest': meta.get('needs'), 'files': meta.get('files'),
         'author': 'independent sub-agent given only the property text and a scratch worktree',
         'repo_head_when_confirmed': head, 'confirmed': ok, 'what_was_run': ran, 'check_results': results,
         'detected': all(any(x['exit'] == 1 and x['violation_lines'] > 0 for x in v) for v in results.values()),
         'note': a.note}
    json.dump(m, open(os.path.join(dest, 'meta.json'), 'w'), indent=1)
    print(a.name, 'confirmed' if ok else 'NOT CONFIRMED', 'detected' if m['detected'] else 'MISSED', tests)
    return 0


if __name__ == '__main__':
    sys.exit(main())
