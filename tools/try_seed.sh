#!/bin/bash
# tools/try_seed.sh <seed dir> <PROP> [more props]  : validates a seeded change and runs the checks against it
d=$1; shift
echo "== $d"; cat $d/meta.json | head -c 600; echo
/verif/tools/mutant.py $d/patch.diff "$@" | /venv/bin/python -c "
import json,sys
j=json.load(sys.stdin)
print('tests:', j.get('tests'), j.get('tests_pass'))
for p,runs in j['props'].items():
    for r in runs:
        print(p, 'rc', r['rc'], 'viol', r['violations'], r['keys'][:3], r['stderr_tail'][-300:])
"
