#!/venv/bin/python
"""Regression run over the stored seeded changes (DESIGN 8.4).

  tools/recheck_seeds.py [--only C05-1,C07-2] [--jobs 3] [--workers 5]

For every /verif/seeded/<name>/: create a scratch worktree of /repo at HEAD, apply patch.diff
(3-way if the tree moved on since the seed was stored), run the quick tier of every property the
seed breaks against it (MC_REPO, evidence to a scratch MC_OUT) and expect exit 1 with a VIOLATION
line.  Seeds whose patch no longer applies are reported as 'stale' (the code they changed was
repaired / rewritten since), never silently skipped.  Writes mutants/SEED_RECHECK.json.
"""
import argparse
import concurrent.futures as cf
import json
import os
import shutil
import subprocess
import tempfile

VERIF = os.path.dirname(os.path.dirname(os.path.abspath(__file__)))
PY = '/venv/bin/python'


def sh(cmd, **kw):
    return subprocess.run(cmd, shell=isinstance(cmd, str), text=True, capture_output=True, **kw)


def one(name, workers):
    d = os.path.join(VERIF, 'seeded', name)
    meta = json.load(open(os.path.join(d, 'meta.json')))
    props = meta.get('breaks') or [meta['property']]
    wt = tempfile.mkdtemp(prefix='reseed_')
    os.rmdir(wt)
    out = tempfile.mkdtemp(prefix='reseedout_')
    res = {'name': name, 'props': {}, 'applied': None}
    try:
        r = sh(['git', '-C', '/repo', 'worktree', 'add', '-q', '--detach', wt, 'HEAD'])
        if r.returncode:
            res['applied'] = 'worktree_failed: ' + r.stderr[-200:]
            return res
        patch = os.path.join(d, 'patch.diff')
        ported = os.path.join(d, 'patch_ported.diff')     # the same change re-created after the code moved on
        r = sh(['git', '-C', wt, 'apply', patch])
        how = 'clean'
        if r.returncode and os.path.exists(ported):
            patch = ported
            r = sh(['git', '-C', wt, 'apply', patch])
            how = 'ported'
        if r.returncode:
            r = sh(['git', '-C', wt, 'apply', '-3', patch])
            how = '3way'
            conflict = r.returncode != 0 or '<<<<<<<' in sh(['git', '-C', wt, 'diff']).stdout
            if conflict:
                res['applied'] = 'stale'
                return res
        res['applied'] = how
        env = dict(os.environ, MC_REPO=wt, MC_OUT=out, MC_WORKERS=str(workers), VERIF_SEED='0')
        for p in props:
            r = sh([PY, '-m', 'mc.run', p, '--tier', 'quick'], cwd=VERIF, env=env)
            keys = sorted({l.split('key=')[1].split(':')[0] + ':' + ':'.join(l.split('key=')[1].split(':')[1:3]).split(' ')[0]
                           for l in r.stdout.splitlines() if 'violation key=' in l})
            res['props'][p] = {'rc': r.returncode, 'violation_lines': r.stdout.count('VIOLATION property='),
                               'keys': keys[:6], 'tail': r.stdout.strip().splitlines()[-1:] if r.stdout.strip() else [r.stderr[-300:]]}
    finally:
        sh(['git', '-C', '/repo', 'worktree', 'remove', '--force', wt])
        shutil.rmtree(wt, ignore_errors=True)
        shutil.rmtree(out, ignore_errors=True)
    return res


def main():
    ap = argparse.ArgumentParser()
    ap.add_argument('--only', default='')
    ap.add_argument('--jobs', type=int, default=3)
    ap.add_argument('--workers', type=int, default=5)
    a = ap.parse_args()
    names = sorted(os.listdir(os.path.join(VERIF, 'seeded')))
    if a.only:
        names = [n for n in names if n in a.only.split(',')]
    results = {}
    with cf.ThreadPoolExecutor(a.jobs) as ex:
        for r in ex.map(lambda n: one(n, a.workers), names):
            results[r['name']] = r
            ok = r['applied'] in ('clean', '3way', 'ported') and all(v['rc'] == 1 and v['violation_lines'] for v in r['props'].values())
            print(r['name'], r['applied'], 'DETECTED' if ok else ('STALE' if r['applied'] == 'stale' else 'MISSED'),
                  {p: v['rc'] for p, v in r['props'].items()}, flush=True)
    sh(['git', '-C', '/repo', 'worktree', 'prune'])
    head = sh(['git', '-C', '/repo', 'rev-parse', '--short', 'HEAD']).stdout.strip()
    summary = {'repo_head': head,
               'detected': sorted(n for n, r in results.items() if r['applied'] in ('clean', '3way', 'ported') and
                                  all(v['rc'] == 1 and v['violation_lines'] for v in r['props'].values())),
               'stale': sorted(n for n, r in results.items() if r['applied'] == 'stale'),
               'missed': sorted(n for n, r in results.items() if r['applied'] in ('clean', '3way', 'ported') and
                                not all(v['rc'] == 1 and v['violation_lines'] for v in r['props'].values())),
               'results': results}
    if not a.only:
        with open(os.path.join(VERIF, 'mutants', 'SEED_RECHECK.json'), 'w') as f:
            json.dump(summary, f, indent=1, sort_keys=True)
    print('detected', len(summary['detected']), 'stale', len(summary['stale']), 'missed', summary['missed'])


if __name__ == '__main__':
    main()
