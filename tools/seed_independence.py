#!/venv/bin/python
"""VERIF_SEED never selects what is explored, it only rotates visiting order: run every quick check under
several seeds (fresh processes) and require identical coverage counters and exit 0.  Writes
mutants/SEED_INDEPENDENCE.json."""
import json
import os
import subprocess
import sys
import tempfile

VERIF = os.path.dirname(os.path.dirname(os.path.abspath(__file__)))
props = sys.argv[1:] or [f'C{i:02d}' for i in range(1, 20)]
seeds = [0, 1, 2, 7]
report = {}
ok = True
for p in props:
    rows = {}
    for s in seeds:
        out = tempfile.mkdtemp(prefix='seedind_')
        env = dict(os.environ, VERIF_SEED=str(s), MC_OUT=out)
        r = subprocess.run(['/venv/bin/python', '-m', 'mc.run', p, '--tier', 'quick'], cwd=VERIF, env=env,
                           capture_output=True, text=True)
        ev = json.load(open(os.path.join(out, 'evidence', p + '.json')))
        c = ev['coverage']
        rows[s] = {'exit': r.returncode, 'evaluations': c.get('evaluations'), 'distinct': c.get('distinct_nontrivial'),
                   'states': c.get('states'), 'transitions': c.get('transitions'), 'violations': ev.get('violations'),
                   'wall_s': ev['wall_s']}
        subprocess.run(['rm', '-rf', out])
    same = len({json.dumps({k: v for k, v in row.items() if k != 'wall_s'}, sort_keys=True) for row in rows.values()}) == 1
    silent = all(row['exit'] == 0 for row in rows.values())
    report[p] = {'identical_counters': same, 'silent': silent, 'runs': rows}
    ok = ok and same and silent
    print(p, 'identical' if same else 'DIFFERENT', 'silent' if silent else 'ALARM', [round(r['wall_s']) for r in rows.values()], flush=True)
json.dump(report, open(os.path.join(VERIF, 'mutants', 'SEED_INDEPENDENCE.json'), 'w'), indent=1)
sys.exit(0 if ok else 1)
