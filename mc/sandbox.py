"""Execution substrate: owns cwd, hash seed, import path and logging before maltoolbox is imported.

maltoolbox/__init__.py opens ``tmp/log.txt`` relative to the cwd at import time and the wrapper
writes ``tmp/model.yml`` there, so every check process first moves into a private scratch
directory.  ``MC_REPO`` lets the mutant driver point the checks at another checkout; by default
the editable install resolves ``import maltoolbox`` to /repo's current working tree.
"""
import atexit
import os
import shutil
import sys
import tempfile

VERIF = os.path.dirname(os.path.dirname(os.path.abspath(__file__)))
REPO = os.environ.get('MC_REPO') or '/repo'
TESTDATA = os.path.join(REPO, 'tests', 'testdata')
GUARD = 'MAL_LANG_MAL_TOOLBOX_VERIF'

_scratch = None
_owner_pid = None


def reexec_with_hashseed(seed='0'):
    """Fix PYTHONHASHSEED for the whole process tree (re-exec once if necessary)."""
    if os.environ.get('PYTHONHASHSEED') != seed:
        env = dict(os.environ)
        env['PYTHONHASHSEED'] = seed
        env['PYTHONDONTWRITEBYTECODE'] = '1'
        os.execve(sys.executable, [sys.executable, '-m', 'mc.run'] + sys.argv[1:], env)


def _cleanup():
    if _scratch and os.getpid() == _owner_pid:
        os.chdir('/')
        shutil.rmtree(_scratch, ignore_errors=True)


def enter():
    """chdir into a fresh scratch dir, fix sys.path, import maltoolbox quietly. Idempotent."""
    global _scratch, _owner_pid
    if _scratch:
        return _scratch
    if VERIF not in sys.path:
        sys.path.insert(0, VERIF)
    if os.environ.get('MC_REPO'):
        sys.path.insert(0, os.environ['MC_REPO'])
    os.environ.setdefault(GUARD, '1')
    sys.dont_write_bytecode = True
    _scratch = tempfile.mkdtemp(prefix='mcverif_')
    _owner_pid = os.getpid()
    atexit.register(_cleanup)
    os.chdir(_scratch)
    import logging
    import maltoolbox  # noqa: F401  (creates tmp/log.txt inside the scratch dir)
    got = os.path.dirname(os.path.dirname(os.path.abspath(maltoolbox.__file__)))
    if os.path.realpath(got) != os.path.realpath(REPO):
        raise RuntimeError(f'maltoolbox imported from {got}, expected {REPO}')
    # logging is not behaviour under test; keep the log file from growing and the run fast
    logging.disable(logging.CRITICAL)
    sys.setrecursionlimit(3000)
    return _scratch


def scratch_path(*parts):
    return os.path.join(enter(), *parts)


_counter = 0


def tmpfile(suffix):
    """unique file path inside the scratch dir (workers are forked and share the directory)"""
    global _counter
    _counter += 1
    d = os.path.join(enter(), f'p{os.getpid()}')
    os.makedirs(d, exist_ok=True)
    return os.path.join(d, f'f{_counter % 8}{suffix}')
