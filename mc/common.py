"""Shared plumbing: result accumulation, violations/replays, known findings, evidence, sharded runs."""
import hashlib
import json
import multiprocessing as mp
import os
import re
import signal
import sys
import time
import traceback

from . import sandbox

VERIF = sandbox.VERIF
OUT = os.environ.get('MC_OUT') or VERIF     # mutant runs write evidence/replays elsewhere
KNOWN_FILE = os.path.join(VERIF, 'KNOWN_FINDINGS.txt')


# --------------------------------------------------------------------------- violations

class Violation(Exception):
    """Raised by an oracle.  ``key`` is the narrow classifier key used by KNOWN_FINDINGS.txt."""

    def __init__(self, key, what, case=None, expected=None, observed=None):
        super().__init__(f'{key}: {what}')
        self.key = key
        self.what = what
        self.case = case
        self.expected = expected
        self.observed = observed

    def to_json(self):
        return {'key': self.key, 'what': self.what, 'case': jsonable(self.case),
                'expected': jsonable(self.expected), 'observed': jsonable(self.observed)}


class Timeout(Exception):
    pass


class Undetermined(Exception):
    """Raised by a system when a call's outcome is not fixed by the property and it took the branch that
    is not checked: the transition is counted but the state is not explored further."""


def _alarm(signum, frame):
    raise Timeout()


class time_limit:
    """Per-execution budget in CPU seconds of this process (robust against a loaded machine);
    exceeding it is a termination violation for the caller."""

    def __init__(self, seconds):
        self.seconds = seconds

    def __enter__(self):
        self.old = signal.signal(signal.SIGVTALRM, _alarm)
        signal.setitimer(signal.ITIMER_VIRTUAL, self.seconds)

    def __exit__(self, *a):
        signal.setitimer(signal.ITIMER_VIRTUAL, 0)
        signal.signal(signal.SIGVTALRM, self.old)
        return False


def jsonable(x, depth=0):
    if depth > 12:
        return repr(x)
    if x is None or isinstance(x, (bool, int, float, str)):
        return x
    if isinstance(x, dict):
        return {str(k): jsonable(v, depth + 1) for k, v in x.items()}
    if isinstance(x, (list, tuple)):
        return [jsonable(v, depth + 1) for v in x]
    if isinstance(x, (set, frozenset)):
        return sorted((jsonable(v, depth + 1) for v in x), key=repr)
    return repr(x)


def known_findings():
    """-> (dict property -> {key: text} for ``known:`` lines, list of ``fixed:`` lines)."""
    known, fixed = {}, []
    if not os.path.exists(KNOWN_FILE):
        return known, fixed
    for line in open(KNOWN_FILE, encoding='utf-8'):
        line = line.strip()
        if not line or line.startswith('#'):
            continue
        m = re.match(r'known:\s+property=(\S+)\s+key=(\S+)\s+(.*)$', line)
        if m:
            known.setdefault(m.group(1), {})[m.group(2)] = m.group(3)
            continue
        if line.startswith('fixed:'):
            fixed.append(line)
    return known, fixed


# --------------------------------------------------------------------------- sharded execution

_WORKER_FN = None


def _call(arg):
    try:
        return ('ok', _WORKER_FN(arg))
    except BaseException:  # noqa: BLE001 - harness errors must surface, never be swallowed
        return ('err', traceback.format_exc())


def pmap(fn, items, workers=None, chunksize=1):
    """Deterministic parallel map (fork). Results come back in input order."""
    global _WORKER_FN
    items = list(items)
    workers = workers or int(os.environ.get('MC_WORKERS', '0')) or min(16, os.cpu_count() or 1)
    _WORKER_FN = fn
    if workers <= 1 or len(items) <= 1:
        out = [_call(i) for i in items]
    else:
        # (an executor, not mp.Pool: when a worker is killed - e.g. by the OOM killer - Pool.map waits for ever,
        # the executor raises BrokenProcessPool)
        import concurrent.futures as cf
        ctx = mp.get_context('fork')
        with cf.ProcessPoolExecutor(min(workers, len(items)), mp_context=ctx) as pool:
            out = list(pool.map(_call, items, chunksize=chunksize))
    res = []
    for tag, val in out:
        if tag == 'err':
            raise RuntimeError('harness error in worker:\n' + val)
        res.append(val)
    return res


def job(fn):
    """Decorator for pmap job functions returning (stats, violations, ...): a Violation raised anywhere
    inside (e.g. a well-formed language rejected while a fixture is built) becomes a reported violation
    instead of a harness crash."""
    import functools

    @functools.wraps(fn)
    def wrapper(arg):
        try:
            out = fn(arg)
        except Violation as v:
            if v.case is None:
                v.case = {}
            out = ({}, [v.to_json()])
        # every reported case carries the job that produced it, so that `--replay` can re-run exactly that job
        for v in out[1]:
            if isinstance(v.get('case'), dict):
                v['case'].setdefault('rerun', {'fn': fn.__name__, 'arg': jsonable(arg)})
            elif v.get('case') is None:
                v['case'] = {'rerun': {'fn': fn.__name__, 'arg': jsonable(arg)}}
        return out
    return wrapper


def tuplify(x):
    """job arguments use tuples, the data inside dicts (specs, expression trees) uses lists: JSON turned both
    into lists, so convert lists back to tuples but leave everything inside a dict alone"""
    if isinstance(x, list):
        return tuple(tuplify(v) for v in x)
    return x


def rerun(prop, path, module):
    """generic --replay: re-run the job recorded in the replay file and look for the same violation key"""
    j = json.load(open(path, encoding='utf-8'))
    rec = j.get('case', {}).get('rerun')
    if not rec:
        print(json.dumps(j, indent=1)[:2000])
        print('no job recorded in this replay file')
        return 2
    out = getattr(module, rec['fn'])(tuplify(rec['arg']))
    keys = [v['key'] for v in out[1]]
    if j['key'] in keys:
        v = next(v for v in out[1] if v['key'] == j['key'])
        print('reproduced:', v['key'], '-', v['what'])
        print(f'VIOLATION property={prop} replay={path}')
        return 1
    if keys:
        print('the recorded violation did not reappear, but the job reports:', sorted(set(keys)))
        print(f'VIOLATION property={prop} replay={path}')
        return 1
    print('not reproduced')
    return 0


def rotate(items, seed):
    """VERIF_SEED never selects what is explored, it only rotates visiting order."""
    items = list(items)
    if not items:
        return items
    k = seed % len(items)
    return items[k:] + items[:k]


# --------------------------------------------------------------------------- run result

class Result:
    """Accumulates coverage counters and violations for one check run."""

    def __init__(self, prop, tier, seed, level):
        self.prop, self.tier, self.seed, self.level = prop, tier, seed, level
        self.t0 = time.time()
        self.counters = {}
        self.samples = []
        self.violations = {}      # key -> first (minimal) violation json
        self.violation_counts = {}
        self.distinct = set()
        self.bounds = {}
        self.notes = []
        self.assumptions = []
        self.exhaustive = True
        self.rule = ''
        self.extra = {}

    def count(self, name, n=1):
        self.counters[name] = self.counters.get(name, 0) + n

    def merge_counts(self, d):
        for k, v in d.items():
            self.count(k, v)

    def sample(self, s, limit=6):
        if len(self.samples) < limit:
            self.samples.append(jsonable(s))

    def add_violation(self, v):
        j = v.to_json() if isinstance(v, Violation) else v
        k = j['key']
        self.violation_counts[k] = self.violation_counts.get(k, 0) + j.get('count', 1)
        if k not in self.violations:
            self.violations[k] = j

    def add_violations(self, vs):
        for v in vs:
            self.add_violation(v)

    # ------------------------------------------------------------------ finishing
    def finish(self):
        known, _fixed = known_findings()
        known = known.get(self.prop, {})
        new, hit = [], []
        for k in sorted(self.violations):
            (hit if k in known else new).append(k)
        cov = dict(self.extra)
        c = self.counters
        cov.update({
            'evaluations': int(c.get('evaluations', c.get('transitions', 0))),
            'distinct_nontrivial': int(c.get('distinct_nontrivial', len(self.distinct))),
            'rule': self.rule,
            'samples': self.samples or ['(no sample recorded)'],
            'exhaustive': bool(self.exhaustive),
            'bounds': self.bounds,
            'counters': {k: c[k] for k in sorted(c)},
            'notes': self.notes,
            'known_findings_hit': {k: self.violation_counts[k] for k in hit},
            'violation_keys': {k: self.violation_counts[k] for k in new},
        })
        if self.level == 'model_checking':
            cov['states'] = int(c.get('states', 0))
            cov['transitions'] = int(c.get('transitions', 0))
            cov['traces_validated_against_impl'] = int(
                c.get('traces_validated_against_impl', c.get('transitions', 0)))
        ev = {
            'property_id': self.prop, 'tier': self.tier, 'seed': self.seed, 'level': self.level,
            'coverage': cov, 'assumptions': self.assumptions,
            'wall_s': round(time.time() - self.t0, 3), 'violations': len(new),
        }
        os.makedirs(os.path.join(OUT, 'evidence'), exist_ok=True)
        path = os.path.join(OUT, 'evidence', f'{self.prop}.json')
        tmp = path + f'.{os.getpid()}.tmp'
        with open(tmp, 'w', encoding='utf-8') as f:
            json.dump(ev, f, indent=1, sort_keys=True, ensure_ascii=False)
            f.write('\n')
        os.replace(tmp, path)

        for k in hit:
            print(f'KNOWN-FINDING: property={self.prop} {known[k]} [key={k} '
                  f'cases={self.violation_counts[k]}]')
        rc = 0
        for k in new:
            j = self.violations[k]
            rp = write_replay(self.prop, self.tier, j)
            print(f'  violation key={k}: {j["what"]}', file=sys.stderr)
            print(f'VIOLATION property={self.prop} replay={rp}')
            rc = 1
        s = (f'{self.prop} tier={self.tier} seed={self.seed} '
             f'evaluations={cov["evaluations"]} distinct={cov["distinct_nontrivial"]} '
             f'exhaustive={cov["exhaustive"]} violations={len(new)} known={len(hit)} '
             f'wall={ev["wall_s"]}s')
        if self.level == 'model_checking':
            s += f' states={cov["states"]} transitions={cov["transitions"]}'
        print(s)
        sys.stdout.flush()
        return rc


def write_replay(prop, tier, j):
    d = os.path.join(OUT, 'replays', prop)
    os.makedirs(d, exist_ok=True)
    body = json.dumps({'property': prop, 'tier': tier, **j}, indent=1, sort_keys=True,
                      ensure_ascii=False, default=repr)
    h = hashlib.sha1(body.encode()).hexdigest()[:12]
    p = os.path.join(d, f'{h}.json')
    with open(p, 'w', encoding='utf-8') as f:
        f.write(body + '\n')
    return p
