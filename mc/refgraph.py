"""Attack-graph observation, structural invariants and the lock-step system for engine H
(C09, C11; state source for C10, C13, C14).

The reference is functional: each operation maps the (validated) observation before the call to
the expected observation after it.  Observations are keyed by node / attacker id; ids are unique by
the invariant that is checked in every state.
"""
import copy

from . import canon
from .common import Violation
from .engine_hist import System


# --------------------------------------------------------------------------- observation

def _num(x):
    if x is None:
        return None
    try:
        return float(x)
    except Exception:  # noqa: BLE001
        return repr(x)


def observe(g):
    """public view of an attack graph, keyed by ids (list order kept separately)"""
    nodes = {}
    for n in g.nodes:
        nodes[n.id] = {
            'name': n.name, 'type': n.type, 'ttc': copy.deepcopy(n.ttc),
            'asset': (str(n.asset.name) if n.asset is not None else None),
            'full_name': n.full_name,
            'defense_status': _num(n.defense_status), 'existence_status': n.existence_status,
            'is_viable': n.is_viable, 'is_necessary': n.is_necessary,
            'mitre_info': n.mitre_info, 'tags': copy.deepcopy(n.tags), 'extras': copy.deepcopy(n.extras),
            'children': sorted(c.id for c in n.children), 'parents': sorted(p.id for p in n.parents),
            'compromised_by': sorted(a.id for a in n.compromised_by),
        }
    atts = {}
    for a in g.attackers:
        atts[a.id] = {'name': a.name, 'entry_points': sorted(n.id for n in a.entry_points),
                      'reached': sorted(n.id for n in a.reached_attack_steps)}
    return {'nodes': nodes, 'node_order': [n.id for n in g.nodes], 'attackers': atts,
            'attacker_order': [a.id for a in g.attackers]}


def edge_set(obs):
    return {(i, c) for i, n in obs['nodes'].items() for c in n['children']}


def invariants(g, ever_node_ids=(), ever_full_names=(), ever_attacker_ids=(), tag=''):
    """C09 / C11 state invariants.  Raises Violation."""
    def V(key, what, **kw):
        raise Violation(key + tag, what, **kw)
    present = {id(n) for n in g.nodes}
    ids = [n.id for n in g.nodes]
    if len(set(ids)) != len(ids):
        V('node_id_shared', 'one id is held by two nodes of the graph', observed=sorted(map(str, ids)))
    if len(present) != len(g.nodes):
        V('node_listed_twice', 'a node object occurs twice in graph.nodes')
    for n in g.nodes:
        for c in n.children:
            if id(c) not in present:
                V('child_not_in_graph', f'{n.full_name} has a child that is not in the graph')
            if not any(p is n for p in c.parents):
                V('edge_not_mirrored', f'{n.full_name} -> {c.full_name} has no parent entry')
        for p in n.parents:
            if id(p) not in present:
                V('parent_not_in_graph', f'{n.full_name} has a parent that is not in the graph')
            if not any(c is n for c in p.children):
                V('edge_not_mirrored', f'{p.full_name} -> {n.full_name} has no child entry')
        if g.get_node_by_id(n.id) is not n:
            V('lookup_by_id_wrong', f'get_node_by_id({n.id}) does not return the node in the graph')
        if g.get_node_by_full_name(n.full_name) is not n:
            V('lookup_by_full_name_wrong', f'get_node_by_full_name({n.full_name!r}) does not return the node')
    idset = set(ids)
    for i in ever_node_ids:
        if i not in idset and g.get_node_by_id(i) is not None:
            V('stale_id_lookup', f'get_node_by_id({i}) returns a node that is not in the graph')
    names = {n.full_name for n in g.nodes}
    for nm in ever_full_names:
        if nm not in names and g.get_node_by_full_name(nm) is not None:
            V('stale_name_lookup', f'get_node_by_full_name({nm!r}) returns a node that is not in the graph')
    aids = [a.id for a in g.attackers]
    apresent = {id(a) for a in g.attackers}
    if len(set(aids)) != len(aids):
        V('attacker_id_shared', 'two attackers share an id', observed=aids)
    for a in g.attackers:
        if g.get_attacker_by_id(a.id) is not a:
            V('attacker_lookup_wrong', f'get_attacker_by_id({a.id}) does not return the attacker')
        for n in a.entry_points:
            if id(n) not in present:
                V('attacker_entry_not_in_graph', f'attacker {a.name} has an entry point that is not in the graph')
        for n in a.reached_attack_steps:
            if id(n) not in present:
                V('attacker_reached_not_in_graph', f'attacker {a.name} lists a reached step that is not in the graph')
            if not any(b is a for b in n.compromised_by):
                V('compromise_not_mirrored', f'{a.name} lists {n.full_name} as reached but the node does not list the attacker')
    for i in ever_attacker_ids:
        if i not in set(aids) and g.get_attacker_by_id(i) is not None:
            V('stale_attacker_lookup', f'get_attacker_by_id({i}) returns an attacker that is not in the graph')
    for n in g.nodes:
        for a in n.compromised_by:
            if id(a) not in apresent:
                V('compromised_by_not_in_graph', f'{n.full_name} is compromised by an attacker that is not in the graph')
            if not any(m is n for m in a.reached_attack_steps):
                V('compromise_not_mirrored', f'{n.full_name} lists {a.name} but the attacker does not list the node')
            if not n.is_compromised_by(a):
                V('is_compromised_by_disagrees', 'is_compromised_by disagrees with compromised_by')


# --------------------------------------------------------------------------- language / model for graph histories

def gops_lang():
    from .langs import COL, F, S, asset, assoc, fn, spec, step
    return spec([
        asset('Nn', steps=[
            step('go', 'or', reaches=[S('go'), COL(F('peers'), S('go')), COL(F('peers'), S('go')),
                                      COL(F('peers'), S('chk'))],
                 ttc=fn('Exponential', 0.1), tags=['tagA', 'tagB'], meta={'mitre': 'T1000'}),
            step('chk', 'and', reaches=[S('go')]),
            step('dd', 'defense', ttc=fn('Enabled'), reaches=[S('chk')]),
        ]),
    ], [assoc('Peer', 'Nn', 'peers', '*', '*', 'peersOf', 'Nn')], lang_id='org.verif.gops')


def gops2_lang():
    from .langs import COL, F, S, asset, assoc, fn, spec, step
    return spec([
        asset('Pp', steps=[
            step('run', 'or', reaches=[COL(F('kids'), S('run')), S('hit')]),
            step('hit', 'and', reaches=[COL(F('kids'), S('hit'))], ttc=fn('Bernoulli', 0.5), tags=['t1']),
            step('has', 'exist', requires=[F('kids')], reaches=[S('hit')]),
            step('lock', 'defense', ttc=fn('Disabled'), reaches=[S('run')], tags=['suppress']),
        ]),
        asset('Qq', sup='Pp', steps=[step('run', 'or', reaches=[COL(F('par'), S('run'))], overrides=False)]),
    ], [assoc('Kid', 'Pp', 'par', '0..1', '*', 'kids', 'Pp')], lang_id='org.verif.gops2')


def build_start(fx, which, names='plain'):
    """-> (model, graph) : two assets, one link, two model attackers (one names a missing step)"""
    from maltoolbox.attackgraph import AttackGraph
    from maltoolbox.model import Model, AttackerAttachment
    m = Model('gm', fx.factory)
    if which == 'GOPS' and names == 'auto':
        # generated names contain ':' and share a prefix ('Nn:0', 'Nn:1')
        a, b = fx.ns.Nn(dd=0.0), fx.ns.Nn()
        m.add_asset(a)
        m.add_asset(b)
        m.add_association(fx.ns.Peer(peers=[b], peersOf=[a]))
        e1, e2 = ('go', 'chk'), ('go', 'nosuchstep')
    elif which == 'GOPS' and names == 'dup':
        # a duplicate name is renamed to '<name>:<id>': 'n' and 'n:1'
        a, b = fx.ns.Nn(name='n', dd=0.0), fx.ns.Nn(name='n')
        m.add_asset(a)
        m.add_asset(b)
        m.add_association(fx.ns.Peer(peers=[b], peersOf=[a]))
        e1, e2 = ('go', 'chk'), ('go', 'nosuchstep')
    elif which == 'GOPS':
        a, b = fx.ns.Nn(name='a', dd=0.0), fx.ns.Nn(name='b')
        m.add_asset(a)
        m.add_asset(b)
        m.add_association(fx.ns.Peer(peers=[b], peersOf=[a]))
        e1, e2 = ('go', 'chk'), ('go', 'nosuchstep')
    else:
        a, b = fx.ns.Pp(name='a'), fx.ns.Qq(name='b', lock=1.0)
        m.add_asset(a)
        m.add_asset(b)
        m.add_association(fx.ns.Kid(par=[a], kids=[b]))
        e1, e2 = ('run', 'hit'), ('run', 'nosuchstep')
    at1 = AttackerAttachment()
    m.add_attacker(at1)
    at1.add_entry_point(a, e1[0])
    at1.add_entry_point(b, e1[1])
    at2 = AttackerAttachment()
    m.add_attacker(at2)
    at2.add_entry_point(b, e2[0])
    at2.add_entry_point(b, e2[1])
    return m, AttackGraph(fx.lang_graph, m)


# --------------------------------------------------------------------------- the system

class Ctx:
    pass


# non-initial start states: prefixes of valid calls replayed on every fresh context
# ('@aK' / '@nK' = id of the K-th attacker / node of the graph at that moment: the prefixes must not depend
# on how the implementation numbers nodes and attackers)
STARTS = {
    'busy': [('attach',), ('compromise', '@a0', '@n3', 'attacker'), ('compromise', '@a1', '@n0', 'node'), ('analyse',),
             ('add_node', None), ('remove_node', '@n1'), ('add_attacker', None, ('@n0',), ('@n0', '@n2'))],
    'reloaded': [('attach',), ('compromise', '@a0', '@n4', 'attacker'), ('saveload', 'yml', True), ('add_node', None),
                 ('remove_node', '@n2')],
}


def _resolve(c, x):
    if isinstance(x, tuple):
        return tuple(_resolve(c, y) for y in x)
    if isinstance(x, str) and len(x) > 2 and x[0] == '@' and x[2:].isdigit():
        seq = c.g.attackers if x[1] == 'a' else c.g.nodes
        return seq[int(x[2:])].id
    return x


class GraphSystem(System):
    """cfg: {'lang': 'GOPS'|'GOPS2', 'alphabet': 'structure'|'attackers'|'all', 'start': 'generated'|'synthetic'}"""

    def __init__(self, cfg):
        from . import langs
        self.cfg = dict(cfg)
        self.which = cfg.get('lang', 'GOPS')
        self.sp = gops_lang() if self.which == 'GOPS' else gops2_lang()
        self.fx = langs.fixture(self.sp)
        self.alpha = cfg.get('alphabet', 'all')
        self.max_nodes_added = cfg.get('max_added', 2)
        self.max_attackers = cfg.get('max_attackers', 3)

    # ------------------------------------------------------------ state
    def fresh(self):
        from . import langs
        if not self.fx.intact():
            self.fx = langs.fixture(self.sp, fresh=True)
        c = Ctx()
        c.model, c.g = build_start(self.fx, self.which, self.cfg.get('names', 'plain'))
        c.has_lang = True
        c.added = 0
        c.removed_nodes = []       # objects removed from the graph (for invalid calls)
        c.removed_attackers = []
        c.removed_from = None      # the graph object the last removal was made on
        c.att_removed_from = None
        c.ever_ids, c.ever_names, c.ever_aids = set(), set(), set()
        c.scratch_n = 0
        c.last_outcome = None
        self._remember(c)
        for op in STARTS.get(self.cfg.get('start'), ()):
            self.step(c, _resolve(c, tuple(op)), False)
        return c

    def _remember(self, c):
        for n in c.g.nodes:
            c.ever_ids.add(n.id)
            c.ever_names.add(n.full_name)
        for a in c.g.attackers:
            c.ever_aids.add(a.id)

    def key(self, c):
        return canon.key((c.g, c.has_lang, c.added, len(c.removed_nodes), len(c.removed_attackers),
                          c.removed_from is c.g, c.att_removed_from is c.g,
                          sorted(map(repr, c.ever_ids)), sorted(c.ever_names), sorted(map(repr, c.ever_aids))))

    def invariant(self, c):
        invariants(c.g, c.ever_ids, c.ever_names, c.ever_aids)

    # ------------------------------------------------------------ alphabet
    def enabled(self, c):
        g = c.g
        ops = []
        st = self.alpha in ('structure', 'all')
        at = self.alpha in ('attackers', 'all')
        ids = [n.id for n in g.nodes]
        if st:
            if c.has_lang:
                ops.append((('regenerate',), 0))
            if c.added < self.max_nodes_added:
                ops.append((('add_node', None), 0))
                ops.append((('add_node', (max(ids) if ids else 0) + 3), 1))
                if ids:
                    ops.append((('add_node', ids[0]), 1))
                # an id that was freed by a removal / lies below the counter
                gone = sorted(i for i in c.ever_ids if isinstance(i, int) and i not in ids)
                if gone:
                    ops.append((('add_node', gone[0]), 1))
            for i in ids[:2] + ids[-1:]:
                ops.append((('remove_node', i), 0))
            if c.removed_nodes:
                ops.append((('remove_node_stale',), 1))
                last = c.removed_nodes[-1]
                # the object that was removed last is handed back to the graph (only while no node of the graph
                # carries its full name: graphs with two equally named steps are outside the property)
                if c.removed_from is c.g and c.added < self.max_nodes_added and (last.asset is None or all(
                        n.full_name != last.full_name for n in g.nodes)):
                    ops.append((('readd_node',), 1))
            if ids and c.added < self.max_nodes_added:
                # a node that is in the graph is handed to add_node again
                ops.append((('add_live_node', ids[0], None), 1))
                ops.append((('add_live_node', ids[-1], max(ids) + 2), 1))
            ops.append((('analyse',), 0))
            ops.append((('prune',), 0))
            # labels are public attributes: relabel a step by hand (no full recalculation), pruning must follow it
            for n in [x for x in g.nodes if x.type in ('or', 'and') and x.is_viable][:1]:
                ops.append((('relabel', n.id), 0))
            ops.append((('deepcopy',), 0))
            ops.append((('saveload', 'json', True), 0))
            ops.append((('saveload', 'json', False), 0))
            ops.append((('saveload', 'yml', True), 0))      # yaml sorts the steps by full name: ids out of order
        if at or st:
            if c.has_lang and not g.attackers:
                ops.append((('attach',), 0))
        if at:
            if c.has_lang and g.attackers and len(g.attackers) + 2 <= self.max_attackers + 1:
                ops.append((('attach',), 1))
            if not st and c.has_lang and not g.attackers and ids:
                # a step the model's entry points name is removed before the attackers are attached:
                # 'exactly the existing nodes named by the model's entry points'
                ops.append((('remove_node', ids[0]), 0))
        if at or st:
            if len(g.attackers) < self.max_attackers:
                ops.append((('add_attacker', None, (), ()), 0))
                if ids:
                    ops.append((('add_attacker', None, tuple(ids[:1]), tuple(ids[:2])), 0))
                if at:
                    ops.append((('add_attacker', 0, (), tuple(ids[:1])), 1))
                    aids = [a.id for a in g.attackers]
                    ops.append((('add_attacker', (max(aids) if aids else 0) + 2, tuple(ids[:1]), ()), 1))
                    if aids:
                        ops.append((('add_attacker', aids[0], (), ()), 1))
                    if ids:
                        # the same step listed twice: compromising twice must change nothing
                        ops.append((('add_attacker', None, (), (ids[0], ids[0])), 1))
            for a in g.attackers[:3]:
                ops.append((('remove_attacker', a.id), 0))
            if c.removed_attackers and c.att_removed_from is c.g and len(g.attackers) < self.max_attackers:
                ops.append((('readd_attacker',), 1))
            if g.attackers:
                # an attacker object that is not in the graph but compares equal to one that is
                ops.append((('remove_attacker_twin', g.attackers[-1].id), 1))
                # an attacker that is in the graph is handed to add_attacker again (fresh id / the id of another)
                aids_ = [a.id for a in g.attackers]
                ops.append((('add_live_attacker', aids_[0], None), 1))
                if len(aids_) > 1:
                    ops.append((('add_live_attacker', aids_[0], aids_[1]), 1))
            if len(g.attackers) < self.max_attackers and ids:
                # an attacker constructed with entry points / reached steps already filled in (node objects)
                ops.append((('add_attacker_filled', ids[0], 'graph_node'), 1))
                if c.removed_nodes:
                    ops.append((('add_attacker_filled', None, 'removed_node'), 1))
            if len(g.attackers) < self.max_attackers and ids:
                # unknown step ids: after a known one among the reached steps / among the entry points
                ghost = max(ids) + 7
                ops.append((('add_attacker_bad', 'reached', ids[0], ghost), 1))
                ops.append((('add_attacker_bad', 'entry', ids[0], ghost), 1))
            if at and ids and len(g.attackers) + 2 <= self.max_attackers:
                # two attackers that compare equal (same name, no id yet) act on one step before they are added
                ops.append((('twins', ids[0]), 1))
            cand = ids[:3] if at else ids[:1]
            for a in g.attackers[:2]:
                reached = {n.id for n in a.reached_attack_steps}
                for k, i in enumerate(cand):
                    side = 'attacker' if k != 1 else 'node'
                    if i in reached:
                        ops.append((('undo', a.id, i, side), 0))
                        if at:
                            ops.append((('compromise', a.id, i, side), 1))
                    else:
                        ops.append((('compromise', a.id, i, side), 0))
                        if at and k == 0:
                            ops.append((('undo', a.id, i, side), 1))
        return ops

    # ------------------------------------------------------------ transitions
    def step(self, c, op, checking):
        kind = op[0]
        before = observe(c.g) if checking else None
        fn = getattr(self, 'op_' + kind)
        mode, thunk, expect, tag = fn(c, op)
        raised = None
        try:
            thunk()
        except Exception as e:  # noqa: BLE001
            raised = e
        c.last_outcome = (mode, 'raised' if raised is not None else 'ok')
        self._remember(c)
        if not checking:
            return
        after = observe(c.g)
        if mode == 'must_raise':
            if raised is None:
                raise Violation(f'{kind}:accepted_but_must_be_rejected:{tag}', f'{kind} {tag} must be rejected')
            if after != before:
                raise Violation(f'{kind}:raised_but_state_changed:{tag}', f'{kind} {tag} raised but changed the graph',
                                expected=_d(before, after), observed=None)
            return
        if mode == 'lenient':
            # re-use of a removed object: rejecting it (state unchanged) and accepting it are both fine,
            # the state invariants (checked by the engine after every step) decide
            if raised is not None and after != before:
                raise Violation(f'{kind}:raised_but_state_changed:{tag}', f'{kind} {tag} raised but changed the graph',
                                expected=_d(before, after), observed=None)
            return
        if mode == 'any_unchanged':
            if after != before:
                raise Violation(f'{kind}:invalid_call_changed_state:{tag}', f'{kind} {tag} changed the graph',
                                observed=_d(before, after))
            return
        if raised is not None:
            raise Violation(f'{kind}:valid_call_raised:{tag}', f'{kind} {tag}: valid call raised {type(raised).__name__}: {raised}')
        want = expect(before, after)
        if want is not None:
            for part in ('nodes', 'attackers'):
                if want[part] != after[part]:
                    raise Violation(f'{kind}:obs_mismatch:{part}:{tag}',
                                    f'after {kind} {tag}: {part} differ from the reference',
                                    expected=_d(after[part], want[part]), observed=_d(want[part], after[part]))

    # -- helpers producing expected observations
    @staticmethod
    def _drop_node(obs, i):
        o = copy.deepcopy(obs)
        o['nodes'].pop(i)
        for n in o['nodes'].values():
            n['children'] = [x for x in n['children'] if x != i]
            n['parents'] = [x for x in n['parents'] if x != i]
        for a in o['attackers'].values():
            a['entry_points'] = [x for x in a['entry_points'] if x != i]
            a['reached'] = [x for x in a['reached'] if x != i]
        return o

    def op_regenerate(self, c, op):
        def thunk():
            old_nodes, old_attackers = list(c.g.nodes), list(c.g.attackers)
            c.g.regenerate_graph()
            c.added = 0
            # objects of the discarded generation may be handed back later (readd_node / readd_attacker)
            if old_nodes:
                c.removed_nodes.append(old_nodes[0])
                c.removed_from = c.g
            if old_attackers:
                c.removed_attackers.append(old_attackers[-1])
                c.att_removed_from = c.g

        def expect(before, after):
            from maltoolbox.attackgraph import AttackGraph
            saved = [list(asset.attack_step_nodes) for asset in c.model.assets]
            fresh = AttackGraph(self.fx.lang_graph, c.model)
            want = observe(fresh)
            # AttackGraph() rebinds asset.attack_step_nodes; restore the graph under test's binding
            for asset, nodes in zip(c.model.assets, saved):
                asset.attack_step_nodes = nodes
            return want
        return 'must_succeed', thunk, expect, ''

    def op_add_node(self, c, op):
        from maltoolbox.attackgraph import AttackGraphNode
        want_id = op[1]
        c.scratch_n += 1
        node = AttackGraphNode(type='or', name=f'extra{c.scratch_n}', ttc=None)
        present = want_id is not None and any(n.id == want_id for n in c.g.nodes)

        def thunk():
            c.g.add_node(node, node_id=want_id)
            c.added += 1

        def expect(before, after):
            if want_id is not None and node.id != want_id:
                raise Violation('add_node:explicit_id_not_honoured', f'asked {want_id} got {node.id}')
            if node.id in before['nodes']:
                raise Violation('add_node:id_not_unique', f'new node got id {node.id} which is in use')
            o = copy.deepcopy(before)
            o['nodes'][node.id] = after['nodes'].get(node.id)
            exp = {'name': node.name, 'type': 'or', 'children': [], 'parents': [], 'compromised_by': [],
                   'full_name': f'{node.id}:{node.name}', 'asset': None}
            got = after['nodes'].get(node.id) or {}
            if any(got.get(k) != v for k, v in exp.items()):
                raise Violation('add_node:new_node_wrong', 'added node not visible as given', expected=exp, observed=got)
            return o
        if present:
            return 'must_raise', thunk, None, 'id_present'
        return 'must_succeed', thunk, expect, 'id_free' if want_id is not None else 'id_auto'

    def op_remove_node(self, c, op):
        i = op[1]
        node = next(n for n in c.g.nodes if n.id == i)

        def thunk():
            c.g.remove_node(node)
            c.removed_nodes.append(node)
            c.removed_from = c.g
        tag = ('compromised' if node.compromised_by else 'plain') + \
              (',selfloop' if any(x is node for x in node.children) else '')

        def expect(before, after):
            return self._drop_node(before, i)
        return 'must_succeed', thunk, expect, tag

    def op_readd_node(self, c, op):
        node = c.removed_nodes[-1]

        def thunk():
            c.g.add_node(node)
            c.removed_nodes.pop()
            c.added += 1
        return 'lenient', thunk, None, 'removed_object'

    def op_add_live_node(self, c, op):
        node = next(n for n in c.g.nodes if n.id == op[1])

        def thunk():
            c.g.add_node(node, node_id=op[2])
        return 'lenient', thunk, None, 'fresh_id' if op[2] is not None else 'auto_id'

    def op_add_live_attacker(self, c, op):
        a = next(x for x in c.g.attackers if x.id == op[1])

        def thunk():
            c.g.add_attacker(a, attacker_id=op[2])
        return 'lenient', thunk, None, 'id_of_other' if op[2] is not None else 'auto_id'

    def op_add_attacker_filled(self, c, op):
        from maltoolbox.attackgraph import Attacker
        _, nid, kind = op
        n = next(x for x in c.g.nodes if x.id == nid) if kind == 'graph_node' else c.removed_nodes[-1]
        c.scratch_n += 1
        a = Attacker(name=f'att{c.scratch_n}', entry_points=[n], reached_attack_steps=[n])

        def thunk():
            c.g.add_attacker(a)

        def expect(before, after):
            o = copy.deepcopy(before)
            o['attackers'][a.id] = {'name': a.name, 'entry_points': [n.id], 'reached': [n.id]}
            o['nodes'][n.id]['compromised_by'] = sorted(o['nodes'][n.id]['compromised_by'] + [a.id])
            return o
        if kind == 'graph_node':
            return 'must_succeed', thunk, expect, 'graph_node'
        # a node that is not in the graph: rejecting (nothing changes) or accepting with the invariants intact
        return 'lenient', thunk, None, 'node_outside_graph'

    def op_add_attacker_bad(self, c, op):
        from maltoolbox.attackgraph import Attacker
        _, where, good, ghost = op
        c.scratch_n += 1
        a = Attacker(name=f'att{c.scratch_n}', entry_points=[], reached_attack_steps=[])

        def thunk():
            if where == 'reached':
                c.g.add_attacker(a, reached_attack_steps=[good, ghost])
            else:
                c.g.add_attacker(a, entry_points=[good, ghost], reached_attack_steps=[good])
        return 'must_raise', thunk, None, 'unknown_' + where

    def op_remove_attacker_twin(self, c, op):
        from maltoolbox.attackgraph import Attacker
        a = next(x for x in c.g.attackers if x.id == op[1])
        twin = Attacker(name=a.name, entry_points=list(a.entry_points), reached_attack_steps=list(a.reached_attack_steps), id=a.id)

        def thunk():
            c.g.remove_attacker(twin)
        return 'any_unchanged', thunk, None, 'equal_twin'

    def op_readd_attacker(self, c, op):
        a = c.removed_attackers[-1]

        def thunk():
            c.g.add_attacker(a)
            c.removed_attackers.pop()
        return 'lenient', thunk, None, 'removed_object'

    def op_twins(self, c, op):
        from maltoolbox.attackgraph import Attacker
        n = next(x for x in c.g.nodes if x.id == op[1])
        a = Attacker(name='twin', entry_points=[], reached_attack_steps=[])
        b = Attacker(name='twin', entry_points=[], reached_attack_steps=[])

        def thunk():
            a.compromise(n)
            b.compromise(n)
            b.undo_compromise(n)
            c.g.add_attacker(a)
            c.g.add_attacker(b)

        def expect(before, after):
            o = copy.deepcopy(before)
            o['attackers'][a.id] = {'name': 'twin', 'entry_points': [], 'reached': [n.id]}
            o['attackers'][b.id] = {'name': 'twin', 'entry_points': [], 'reached': []}
            o['nodes'][n.id]['compromised_by'] = sorted(o['nodes'][n.id]['compromised_by'] + [a.id])
            if not any(x is a for x in n.compromised_by) or any(x is b for x in n.compromised_by):
                raise Violation('twins:wrong_attacker_object', 'undoing the compromise of one attacker acted on its equal twin')
            return o
        return 'must_succeed', thunk, expect, 'equal_unregistered'

    def op_remove_node_stale(self, c, op):
        node = c.removed_nodes[-1]

        def thunk():
            c.g.remove_node(node)
        return 'any_unchanged', thunk, None, 'already_removed'

    def op_analyse(self, c, op):
        from maltoolbox.attackgraph.analyzers.apriori import calculate_viability_and_necessity

        def thunk():
            calculate_viability_and_necessity(c.g)

        def expect(before, after):
            o = copy.deepcopy(before)
            for i, n in o['nodes'].items():        # labels are C08's business: adopt them
                if i in after['nodes']:
                    n['is_viable'] = after['nodes'][i]['is_viable']
                    n['is_necessary'] = after['nodes'][i]['is_necessary']
            return o
        return 'must_succeed', thunk, expect, ''

    def op_relabel(self, c, op):
        n = next(x for x in c.g.nodes if x.id == op[1])

        def thunk():
            n.is_viable = False

        def expect(before, after):
            o = copy.deepcopy(before)
            o['nodes'][op[1]]['is_viable'] = False
            return o
        return 'must_succeed', thunk, expect, ''

    def op_prune(self, c, op):
        from maltoolbox.attackgraph.analyzers.apriori import prune_unviable_and_unnecessary_nodes

        def thunk():
            removed = [n for n in c.g.nodes]
            prune_unviable_and_unnecessary_nodes(c.g)
            c.removed_nodes.extend(n for n in removed if not any(m is n for m in c.g.nodes))
            c.removed_from = c.g

        def expect(before, after):
            o = before
            for i, n in list(before['nodes'].items()):
                if n['type'] in ('or', 'and') and (not n['is_viable'] or not n['is_necessary']):
                    o = self._drop_node(o, i)
            return o
        return 'must_succeed', thunk, expect, ''

    def op_deepcopy(self, c, op):
        def thunk():
            c.g = copy.deepcopy(c.g)

        def expect(before, after):
            return before
        return 'must_succeed', thunk, expect, ''

    def op_saveload(self, c, op):
        from maltoolbox.attackgraph import AttackGraph
        from . import sandbox
        _, fmt, with_model = op

        def thunk():
            p = sandbox.tmpfile('.' + fmt)
            c.g.save_to_file(p)
            c.g = AttackGraph.load_from_file(p, c.model if with_model else None)
            c.has_lang = False

        def expect(before, after):
            return None      # faithfulness of save/load is C10's business; invariants still apply
        return 'must_succeed', thunk, expect, fmt + (',model' if with_model else ',nomodel')

    def op_attach(self, c, op):
        def thunk():
            c.g.attach_attackers()

        def expect(before, after):
            o = copy.deepcopy(before)
            new = [i for i in after['attacker_order'] if i not in before['attackers']]
            if len(new) != len(c.model.attackers):
                raise Violation('attach:attacker_count', 'attach_attackers must create one attacker per model attacker',
                                expected=len(c.model.attackers), observed=len(new))
            byname = {n['full_name']: i for i, n in before['nodes'].items()}
            for aid, ma in zip(new, c.model.attackers):
                named = []
                for asset, steps in ma.entry_points:
                    for s in steps:
                        fid = byname.get(str(asset.name) + ':' + s)
                        if fid is not None and fid not in named:
                            named.append(fid)
                o['attackers'][aid] = {'name': ma.name, 'entry_points': sorted(named), 'reached': sorted(named)}
                for fid in named:
                    o['nodes'][fid]['compromised_by'] = sorted(o['nodes'][fid]['compromised_by'] + [aid])
            if len(set(o['attackers'])) != len(before['attackers']) + len(new):
                raise Violation('attach:attacker_id_not_unique', 'attached attacker reuses an id')
            return o
        return 'must_succeed', thunk, expect, 'again' if c.g.attackers else 'first'

    def op_add_attacker(self, c, op):
        from maltoolbox.attackgraph import Attacker
        _, want_id, eps, reached = op
        c.scratch_n += 1
        a = Attacker(name=f'att{c.scratch_n}', entry_points=[], reached_attack_steps=[])
        present = want_id is not None and any(x.id == want_id for x in c.g.attackers)

        def thunk():
            c.g.add_attacker(a, attacker_id=want_id, entry_points=list(eps), reached_attack_steps=list(reached))

        def expect(before, after):
            if want_id is not None and a.id != want_id:
                raise Violation('add_attacker:explicit_id_not_honoured:' + ('zero' if want_id == 0 else 'nonzero'),
                                f'asked {want_id} got {a.id}')
            if a.id in before['attackers']:
                raise Violation('add_attacker:id_not_unique', f'new attacker got id {a.id} which is in use')
            o = copy.deepcopy(before)
            o['attackers'][a.id] = {'name': a.name, 'entry_points': sorted(eps), 'reached': sorted(set(reached))}
            for i in sorted(set(reached)):
                o['nodes'][i]['compromised_by'] = sorted(o['nodes'][i]['compromised_by'] + [a.id])
            return o
        if present:
            return 'must_raise', thunk, None, 'id_present'
        return 'must_succeed', thunk, expect, ('id_auto' if want_id is None else 'id_zero' if want_id == 0 else 'id_free')

    def op_remove_attacker(self, c, op):
        aid = op[1]
        a = next(x for x in c.g.attackers if x.id == aid)
        k = len(a.reached_attack_steps)

        def thunk():
            c.g.remove_attacker(a)
            c.removed_attackers.append(a)
            c.att_removed_from = c.g

        def expect(before, after):
            o = copy.deepcopy(before)
            o['attackers'].pop(aid)
            for n in o['nodes'].values():
                n['compromised_by'] = [x for x in n['compromised_by'] if x != aid]
            return o
        return 'must_succeed', thunk, expect, f'reached{min(k, 3)}'

    def _pair(self, c, op):
        _, aid, nid, side = op
        a = next(x for x in c.g.attackers if x.id == aid)
        n = next(x for x in c.g.nodes if x.id == nid)
        return a, n, side

    def op_compromise(self, c, op):
        a, n, side = self._pair(c, op)
        already = any(x is n for x in a.reached_attack_steps)

        def thunk():
            a.compromise(n) if side == 'attacker' else n.compromise(a)

        def expect(before, after):
            o = copy.deepcopy(before)
            if not already:
                o['attackers'][a.id]['reached'] = sorted(o['attackers'][a.id]['reached'] + [n.id])
                o['nodes'][n.id]['compromised_by'] = sorted(o['nodes'][n.id]['compromised_by'] + [a.id])
            return o
        return 'must_succeed', thunk, expect, ('repeat' if already else 'new') + ',' + side

    def op_undo(self, c, op):
        a, n, side = self._pair(c, op)
        had = any(x is n for x in a.reached_attack_steps)

        def thunk():
            a.undo_compromise(n) if side == 'attacker' else n.undo_compromise(a)

        def expect(before, after):
            o = copy.deepcopy(before)
            if had:
                o['attackers'][a.id]['reached'] = [x for x in o['attackers'][a.id]['reached'] if x != n.id]
                o['nodes'][n.id]['compromised_by'] = [x for x in o['nodes'][n.id]['compromised_by'] if x != a.id]
            return o
        return 'must_succeed', thunk, expect, ('present' if had else 'vacuous') + ',' + side


def _d(a, b):
    """compact difference a vs b (what a has that b has not, by key)"""
    if isinstance(a, dict) and isinstance(b, dict):
        out = {}
        for k in a:
            if k not in b:
                out[str(k)] = 'only_here'
            elif a[k] != b[k]:
                out[str(k)] = _d(a[k], b[k])
        for k in b:
            if k not in a:
                out[str(k)] = 'missing_here'
        return out
    return [repr(a)[:200], repr(b)[:200]]
