"""C02 - one node per asset x step, attributes faithful to model and language (engines E+H)."""
import itertools
import json

from .. import common, families, langs, modelgen
from ..langs import F, fn, step
from ..refs import inherit, sem

PROP = 'C02'

KINDS = [
    ('or', dict(kind='or')),
    ('and_ttc_tags_mitre', dict(kind='and', ttc=fn('Exponential', 0.25), tags=('tag1', 'tag2'),
                                meta={'mitre': 'T1234', 'user': 'info text'})),
    ('defense_nottc', dict(kind='defense')),
    ('defense_enabled', dict(kind='defense', ttc=fn('Enabled'), tags=('suppress',))),
    ('defense_disabled', dict(kind='defense', ttc=fn('Disabled'))),
    ('defense_bernoulli', dict(kind='defense', ttc=fn('Bernoulli', 0.5))),
    ('defense_alternating', dict(kind='defense', ttc='alternate')),
    ('exist', dict(kind='exist', requires=[F('outs')], ttc=None)),
    ('notexist', dict(kind='notExist', requires=[F('ins')], tags=('tagx',))),
]
INH_TYPES = ['Rr', 'Mm', 'L1', 'L2']
NAME_OPTS = [None, 'n', 'n:1', 'x:sx']
ID_OPTS = [None, 0, 5, -1]
DEF_OPTS = [None, 0, 0.5, 1]


def _models_basic():
    """type sequences N<=2 with default names, one Link variation, all defense values"""
    out = []
    for n in (1, 2):
        for seq in itertools.product(INH_TYPES, repeat=n):
            for link in ((False, True) if n == 2 else (False,)):
                for dv in DEF_OPTS:
                    out.append({'assets': [(None, t, None, dv) for t in seq], 'link': link})
    return out


def _models_naming():
    """N<=3 over two types with every name / id combination for two assets and the known
    collision shapes for three (automatic renaming that collides with an existing name)."""
    out = []
    for t1, t2 in itertools.product(('L1', 'Rr'), repeat=2):
        for n1, n2 in itertools.product(NAME_OPTS, repeat=2):
            for i1, i2 in itertools.product(ID_OPTS, repeat=2):
                if i1 is not None and i1 == i2:
                    continue
                out.append({'assets': [(n1, t1, i1, None), (n2, t2, i2, 0.5)], 'link': True})
    for names in (('n', 'n:2', 'n'), ('n', 'n', 'n:1'), ('n:1', 'n', 'n'), ('L1:2', 'n', None),
                  ('n', 'n', 'n'), (None, 'L1:0', None)):
        out.append({'assets': [(nm, 'L1', None, None) for nm in names], 'link': False})
    return out


def build(fx, desc, defense_step):
    from maltoolbox.model import Model
    m = Model('m', fx.factory)
    objs = []
    exposes = {t: inherit.resolve(fx.pristine, t) for t in INH_TYPES}
    for name, t, aid, dv in desc['assets']:
        kw = {}
        if name is not None:
            kw['name'] = name
        r = exposes[t].get(defense_step)
        if dv is not None and r and r['decl']['type'] == 'defense':
            kw[defense_step] = dv
        o = getattr(fx.ns, t)(**kw)
        m.add_asset(o, asset_id=aid)
        objs.append(o)
    if desc['link'] and len(objs) >= 2:
        m.add_association(fx.ns.Link(ins=[objs[0]], outs=[objs[1]]))
    return m, objs


def check_graph(sp, lang, model, objs, pm, desc_for_report, defense_values, stats):
    """the C02 oracle for one (language, model); -> list of Violation"""
    from maltoolbox.attackgraph import AttackGraph
    fx = langs.fixture(sp)
    g = AttackGraph(fx.lang_graph, model)
    viols = []

    def V(key, what, **kw):
        viols.append(common.Violation(key, what, case=desc_for_report, **kw))
    exp = {}
    for o in objs:
        for sname, r in inherit.resolve(sp, str(o.type)).items():
            exp[(str(o.name), sname)] = (o, r)
    got = {}
    for n in g.nodes:
        k = (str(n.asset.name) if n.asset is not None else None, n.name)
        if k in got:
            V('duplicate_node', f'two nodes for {k}')
        got[k] = n
    if set(exp) != set(got):
        V('node_set_mismatch', 'nodes are not exactly (asset, exposed step) pairs',
          expected=sorted(map(list, set(exp) - set(got)))[:5], observed=sorted(map(str, set(got) - set(exp)))[:5])
    ids = [n.id for n in g.nodes]
    if len(set(ids)) != len(ids) or any(not isinstance(i, int) for i in ids):
        V('node_ids_not_unique', 'node ids are not unique integers', observed=ids[:20])
    fulls = [n.full_name for n in g.nodes]
    if len(set(fulls)) != len(fulls):
        V('full_names_not_unique', 'two nodes share a full name', observed=sorted(fulls)[:20])
    for k, (o, r) in exp.items():
        n = got.get(k)
        if n is None:
            continue
        stats['nodes'] = stats.get('nodes', 0) + 1
        d = r['decl']
        if n.full_name != k[0] + ':' + k[1]:
            V('full_name_wrong', 'full name is not asset name : step name', expected=k[0] + ':' + k[1], observed=n.full_name)
        for attr, want in (('type', d['type']), ('ttc', d['ttc']), ('tags', d['tags']),
                           ('mitre_info', d['meta'].get('mitre'))):
            have = getattr(n, attr)
            if have != want:
                V(f'attribute_mismatch:{attr}', f'node {n.full_name}: {attr} differs from the resolved declaration',
                  expected=want, observed=have)
        if n.asset is not o:
            V('asset_binding', f'node {n.full_name} is not bound to its asset object')
        if d['type'] == 'defense':
            want = defense_values.get(str(o.name))
            if want is None:
                want = 1.0 if (d['ttc'] and d['ttc'].get('name') == 'Enabled') else 0.0
            try:
                ok = n.defense_status is not None and float(n.defense_status) == float(want)
            except Exception:  # noqa: BLE001
                ok = False
            if not ok:
                V('defense_status_wrong', f'node {n.full_name}: defense status differs from the asset value',
                  expected=want, observed=repr(n.defense_status))
            stats['defense_nodes'] = stats.get('defense_nodes', 0) + 1
        if d['type'] in ('exist', 'notExist'):
            req = d['requires']['stepExpressions'][0]
            lo, hi = sem.ev(lang, pm, req, {k[0]}, {k[0]})
            if bool(lo) == bool(hi):
                stats['existence_nodes'] = stats.get('existence_nodes', 0) + 1
                if n.existence_status is not bool(lo) and n.existence_status != bool(lo):
                    V('existence_status_wrong:' + '+'.join(sorted(sem.ops_in(req) - {'field', 'collect'}) or ['field']),
                      f'node {n.full_name}: existence status differs from "requirement reaches an asset"',
                      expected=bool(lo), observed=n.existence_status)
        if g.get_node_by_id(n.id) is not n:
            V('lookup_by_id', f'get_node_by_id({n.id}) is not the node')
        if g.get_node_by_full_name(k[0] + ':' + k[1]) is not n:
            V('lookup_by_full_name', f'get_node_by_full_name({k[0]}:{k[1]}) is not the node')
    if ids and isinstance(max(ids), int):
        if g.get_node_by_id(max(ids) + 1) is not None or g.get_node_by_id(min(ids) - 1) is not None:
            V('lookup_absent_id', 'lookup of an absent id returns a node')
    if g.get_node_by_full_name('no-such-asset:sx') is not None:
        V('lookup_absent_name', 'lookup of an absent full name returns a node')
    return viols


def _plain(objs, model):
    """PlainModel of a real model (names as finally assigned), for the existence reference"""
    assets = [(str(o.name), str(o.type)) for o in objs]
    links = []
    for a in model.associations:
        lf, rf = list(a._properties.keys())
        links.append((type(a).__name__, lf, [str(x.name) for x in getattr(a, lf)],
                      rf, [str(x.name) for x in getattr(a, rf)]))
    return sem.PlainModel(assets, links)


@common.job
def job_inh(job):
    shape, kname, full = job
    kw = dict(KINDS)[kname]
    sp = families.inh_lang(shape, **kw)
    fx = langs.fixture(sp)
    lang = sem.Lang(sp)
    stats, viols = {'languages': 1}, []
    models = _models_basic() + (_models_naming() if full else [])
    if kw.get('kind') != 'defense':
        # defense values only matter for languages whose step is a defense
        models = [d for d in models if all(a[3] in (None, 0.5) for a in d['assets'])]
    for desc in models:
        try:
            m, objs = build(fx, desc, 'sx')
        except Exception as e:  # noqa: BLE001
            stats['model_build_rejected'] = stats.get('model_build_rejected', 0) + 1
            continue
        pm = _plain(objs, m)
        dvals = {}
        for (_n, _t, _i, dv), o in zip(desc['assets'], objs):
            if dv is not None:
                dvals[str(o.name)] = dv
        rep = {'language': {'family': 'INH', 'shape': shape, 'kind': kname}, 'model': desc,
               'asset_names': [str(o.name) for o in objs]}
        try:
            vs = check_graph(sp, lang, m, objs, pm, rep, dvals, stats)
        except Exception as e:  # noqa: BLE001
            vs = [common.Violation(f'generation_raised:{type(e).__name__}', f'attack-graph generation raised {e}', case=rep)]
        stats['graphs'] = stats.get('graphs', 0) + 1
        viols += [v.to_json() for v in vs]
    return stats, viols[:40]


# ---- part B: existence status over the SEM expression space

_SEMB = sem.Lang(families.sem_lang())
_PB = {}


def _partb(kmax, n, l, two):
    key = (kmax, n, l, two)
    if key not in _PB:
        exprs = [e for e, _t in sem.gen_upto(_SEMB, 'Aa', kmax, None)]
        models = list(modelgen.enum_models(_SEMB, _SEMB.sp, ['Aa', 'Bb', 'Cc', 'Dd'], n, l, two))
        _PB[key] = (exprs, models)
    return _PB[key]


@common.job
def job_sem(job):
    key, ci, lo, hi = job
    exprs, models = _partb(*key)
    chunk = exprs[ci * 120:(ci + 1) * 120]
    steps = []
    for i, e in enumerate(chunk):
        steps.append(step(f'x{i}', 'exist', requires=[e]))
        steps.append(step(f'y{i}', 'notExist', requires=[e]))
    sp = families.sem_lang(steps)
    fx = langs.fixture(sp, key=('C02B', key, ci))
    lang = sem.Lang(sp)
    stats, viols = {}, []
    for pm in models[lo:hi]:
        if not any(t in ('Aa', 'Bb') for _n, t in pm.assets):
            continue
        m, objs = modelgen.build(fx, pm)
        rep = {'language': {'family': 'SEM', 'requires': [sem.show(e) for e in chunk[:3]] + ['...']},
               'model': pm.describe()}
        try:
            vs = check_graph(sp, lang, m, list(objs.values()), pm, rep, {}, stats)
        except Exception as e:  # noqa: BLE001
            vs = [common.Violation(f'generation_raised:{type(e).__name__}', f'attack-graph generation raised {e}', case=rep)]
        stats['graphs'] = stats.get('graphs', 0) + 1
        viols += [v.to_json() for v in vs]
    return stats, viols[:40]


def run(tier, seed):
    res = common.Result(PROP, tier, seed, 'model_checking')
    res.rule = ('part A: every INH inheritance shape x 9 step kinds x models (type sequences N<=2, defense values, '
                'and on a language subset every name/id combination incl. rename collisions); part B: exist/notExist '
                'steps whose requirement is every well-typed expression up to the operator bound x every SEM model '
                'up to the bound; a state is one generated graph; non-trivial nodes = defense/existence nodes')
    shapes = families.inh_shapes(tier == 'thorough')
    jobs = []
    for si, sh in enumerate(shapes):
        for kname, _ in KINDS:
            jobs.append((sh, kname, (si % 12 == 0) or tier == 'thorough' and si % 3 == 0))
    jobs = common.rotate(jobs, seed)
    for stats, viols in common.pmap(job_inh, jobs, chunksize=4):
        res.merge_counts(stats)
        res.add_violations(viols)
    # (the full product ops<=2 x N<=3 is 13 million graphs: the thorough tier keeps N<=3 for one operator and
    # explores two operators over every model with N<=2)
    for key in ([(1, 3, 2, False)] if tier == 'quick' else [(1, 3, 2, False), (2, 2, 2, False)]):
        exprs, models = _partb(*key)
        nch = (len(exprs) + 119) // 120
        per = max(1, len(models) // 48 + 1)
        jobs2 = common.rotate([(key, ci, lo, min(lo + per, len(models)))
                               for ci in range(nch) for lo in range(0, len(models), per)], seed)
        for stats, viols in common.pmap(job_sem, jobs2):
            res.merge_counts(stats)
            res.add_violations(viols)
    res.bounds = {'inh_languages': len(jobs), 'partB_expressions': len(exprs), 'partB_models': len(models),
                  'partB_bound': {'ops<=': key[0], 'N<=': key[1], 'L<=': key[2], 'two_member_sides': key[3]}}
    res.sample({'inh_shape': shapes[-1], 'kinds': [k for k, _ in KINDS], 'naming_model': _models_naming()[-1]})
    c = res.counters
    c['states'] = c.get('graphs', 0)
    c['transitions'] = c.get('nodes', 0)
    c['traces_validated_against_impl'] = c.get('nodes', 0)
    c['evaluations'] = c.get('nodes', 0)
    c['distinct_nontrivial'] = c.get('defense_nodes', 0) + c.get('existence_nodes', 0)
    return res.finish()


def replay(path):
    import sys
    return common.rerun(PROP, path, sys.modules[__name__])
