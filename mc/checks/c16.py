"""C16 - graph generation is deterministic and does not disturb its inputs (configuration grid)."""
import json
import os
import subprocess
import sys

from .. import c16_worker, common, sandbox

PROP = 'C16'


def spawn(arg):
    seed, cells, reverse = arg
    env = dict(os.environ, PYTHONHASHSEED=str(seed), PYTHONDONTWRITEBYTECODE='1')
    env.pop('MC_WORKERS', None)
    r = subprocess.run([sys.executable, '-m', 'mc.c16_worker', json.dumps({'cells': cells, 'reverse': reverse})],
                       cwd=sandbox.VERIF, env=env, capture_output=True, text=True)
    line = next((l for l in r.stdout.splitlines() if l.startswith('C16RESULT ')), None)
    if line is None:
        raise RuntimeError(f'C16 worker failed (seed {seed}): {r.stderr[-2000:]}')
    return (seed, cells, reverse), json.loads(line[len('C16RESULT '):])


def run(tier, seed):
    res = common.Result(PROP, tier, seed, 'exploration')
    res.rule = ('configuration grid, run completely: every (language, model) cell x entry path {direct API, create_attack_graph from '
                '.mar, from .mal text printed by the unparser} x {twice in one process} x process layout {all cells in one process '
                'in order, in reverse order, one fresh process per cell} x PYTHONHASHSEED values; within a cell every serialised '
                'graph must be identical (hash of the ordered JSON dump); model serialisation and language specification unchanged '
                'by generation + attach + analysis; graphs built from one model share no node')
    names = [c[0] for c in c16_worker.cells()]
    seeds = [0, 1] if tier == 'quick' else [0, 1, 2, 3, 4, 1234567]
    jobs = [(s, None, False) for s in seeds]
    jobs.append((seeds[-1], None, True))
    jobs += [(seeds[(i + 1) % len(seeds)], [n], False) for i, n in enumerate(names)]
    jobs = common.rotate(jobs, seed)
    per_cell = {n: {} for n in names}
    for cfg, out in common.pmap(spawn, jobs):
        s, cells, rev = cfg
        label = f'seed{s}:' + ('reverse' if rev else 'single' if cells else 'all')
        for n, r in out.items():
            res.count('graph_generations', len(r['hashes']))
            for p in r['problems']:
                res.add_violation(common.Violation('input_disturbed:' + p.split(' ')[0] + '_' + p.split(' ')[1], p,
                                                   case={'cell': n, 'run': label}))
            for k, h in r['hashes'].items():
                per_cell[n][f'{label}:{k}'] = h
    for n, hs in per_cell.items():
        vals = set(hs.values())
        res.count('cells', 1)
        errs = [v for v in vals if str(v).startswith('ERROR')]
        if errs:
            res.add_violation(common.Violation('entry_path_failed', f'an entry path raised: {errs[0]}', case={'cell': n, 'hashes': hs}))
        elif len(vals) != 1:
            kinds = sorted({k.split(':')[-1].split('#')[0] for k, v in hs.items()})
            ref = hs.get('seed0:all:api#0')
            diff = sorted(k for k, v in hs.items() if v != ref)
            aspect = ('hash_seed' if any(not d.startswith('seed0') for d in diff) and all(hs[k] == ref for k in hs if k.startswith('seed0:all')) else
                      'entry_path' if any('mar' in d or 'mal' in d for d in diff) and not any('api' in d for d in diff) else
                      'repetition_or_process')
            res.add_violation(common.Violation(f'nondeterministic:{aspect}', 'serialised graphs differ within one (language, model) cell',
                                               case={'cell': n, 'differing_runs': diff[:10]}, expected=ref,
                                               observed={k: hs[k] for k in diff[:6]}))
    res.bounds = {'cells': len(names), 'hash_seeds': seeds, 'entry_paths': ['api', 'mar', 'mal'],
                  'process_layouts': ['all cells in order', 'all cells reversed', 'one process per cell']}
    res.sample({'cell': names[0], 'runs': sorted(per_cell[names[0]])[:6]})
    c = res.counters
    c['evaluations'] = c.get('graph_generations', 0)
    c['distinct_nontrivial'] = len(names) * 3 * len(seeds)
    return res.finish()


def replay(path):
    """re-runs the cell of the replay file under two hash seeds (alone and after all other cells)"""
    j = json.load(open(path))
    cell = j['case']['cell']
    hs, problems = {}, []
    for cfg, out in [spawn((0, [cell], False)), spawn((1, [cell], False)), spawn((0, None, False))]:
        r = out[cell]
        problems += r['problems']
        for k, h in r['hashes'].items():
            hs[f'{cfg[0]}:{"single" if cfg[1] else "all"}:{k}'] = h
    bad = len(set(hs.values())) != 1 or problems or any(str(v).startswith('ERROR') for v in hs.values())
    if bad:
        print('reproduced:', problems or sorted(set(hs.values())))
        print(f'VIOLATION property={PROP} replay={path}')
        return 1
    print('not reproduced')
    return 0
