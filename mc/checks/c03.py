"""C03 - step inheritance folds correctly and the lookup is pure (engine H, BFS to closure)."""
import copy
import json

from .. import common, families
from ..refs import inherit

PROP = 'C03'
DEPTH_CAP = 3


def _types(sp):
    return [a['name'] for a in sp['assets']]


class Ctx:
    pass


def fresh(sp_pristine):
    from maltoolbox.language import LanguageGraph
    c = Ctx()
    c.spec = copy.deepcopy(sp_pristine)
    c.lg = LanguageGraph(c.spec)
    c.factory = None
    return c


ATTRS = ('type', 'ttc', 'tags', 'meta', 'requires')


def _view(d):
    out = {k: d.get(k) for k in ATTRS}
    out['reaches'] = d['reaches']['stepExpressions'] if d.get('reaches') else []
    return out


def resolver(lg, t):
    """the step resolver named by the property; public fallback if it is ever renamed"""
    if hasattr(lg, '_get_attacks_for_asset_type'):
        r = lg._get_attacks_for_asset_type(t)
        return {n: _view(d) for n, d in r.items()}
    a = lg.get_asset_by_name(t)
    return {s.name: _view(s.attributes) for s in a.attack_steps}


def observe(c, types):
    o = {'spec': json.dumps(c.lg._lang_spec if hasattr(c.lg, '_lang_spec') else c.spec, sort_keys=True),
         'spec_obj': json.dumps(c.spec, sort_keys=True)}
    o['answers'] = json.dumps({t: resolver(c.lg, t) for t in types}, sort_keys=True)
    pub = {}
    for t in types:
        a = c.lg.get_asset_by_name(t)
        pub[t] = {s.name: _view(s.attributes) for s in a.attack_steps}
    o['public'] = json.dumps(pub, sort_keys=True)
    return o


def ops_for(types, leaf_types):
    ops = [('resolve', t) for t in types]
    ops += [('regen',), ('rebuild',), ('classes',)]
    ops += [('attack_graph', (t,)) for t in leaf_types]
    ops += [('attack_graph', tuple(leaf_types))]
    return ops


def apply(c, op):
    from maltoolbox.language import LanguageGraph, LanguageClassesFactory
    from maltoolbox.attackgraph import AttackGraph
    from maltoolbox.model import Model
    k = op[0]
    if k == 'resolve':
        return resolver(c.lg, op[1])
    if k == 'regen':
        c.lg.regenerate_graph()
    elif k == 'rebuild':
        c.lg = LanguageGraph(c.spec)
        c.factory = None
    elif k == 'classes':
        c.factory = LanguageClassesFactory(c.lg)
    elif k == 'attack_graph':
        if c.factory is None:
            c.factory = LanguageClassesFactory(c.lg)
        m = Model('m', c.factory)
        for i, t in enumerate(op[1]):
            m.add_asset(getattr(c.factory.ns, t)(name=f'x{i}'))
        AttackGraph(c.lg, m)
    return None


def expected_answers(sp, types):
    exp = {}
    for t in types:
        r = inherit.resolve(sp, t)
        exp[t] = {}
        for n, d in r.items():
            exp[t][n] = {k: d['decl'].get(k) for k in ATTRS}
            exp[t][n]['reaches'] = d['reaches']
        # the two formulations of the reference must agree (oracle self-check)
        for n in exp[t]:
            alt = inherit.resolve_bottom_up(sp, t, n)
            if alt != exp[t][n]['reaches']:
                raise RuntimeError(f'reference formulations disagree on {t}.{n}: {alt} vs {exp[t][n]}')
    return exp


def check_language(job):
    shape, depth4 = job
    sp = families.inh_lang(shape, depth4=depth4)
    types = _types(sp)
    leafs = [t for t in types if not any(a['superAsset'] == t for a in sp['assets'])]
    exp = expected_answers(sp, types)
    exp_json = json.dumps(exp, sort_keys=True)
    pristine = json.dumps(sp, sort_keys=True)
    stats = {'languages': 1, 'states': 0, 'transitions': 0}
    viols = []

    def case(hist, op=None):
        return {'shape': shape, 'depth4': depth4, 'history': [list(h) for h in hist], 'op': op}

    def classify(obs, hist, op):
        """compare an observation with the reference; -> Violation or None"""
        if obs['spec'] != pristine or obs['spec_obj'] != pristine:
            return common.Violation('spec_modified:' + (op[0] if op else 'load'),
                                    'the loaded language specification was modified',
                                    case=case(hist, op), expected='(pristine spec)',
                                    observed=_diff(json.loads(pristine), json.loads(obs['spec'])))
        for part in ('answers', 'public'):
            if obs[part] != exp_json:
                got = json.loads(obs[part])
                bad = [(t, n) for t in types for n in set(exp[t]) | set(got.get(t, {}))
                       if exp[t].get(n) != got.get(t, {}).get(n)]
                t, n = bad[0]
                return common.Violation(
                    f'wrong_fold:{part}:' + (op[0] if op else 'load') + ':' + _what(exp[bad[0][0]].get(bad[0][1]), got.get(bad[0][0], {}).get(bad[0][1])),
                    f'steps exposed by {t} differ from the root-down fold (step {n})',
                    case=case(hist, op), expected=exp[t].get(n), observed=got.get(t, {}).get(n))
        return None

    c0 = fresh(sp)
    o0 = observe(c0, types)
    stats['states'] += 1
    v = classify(o0, (), None)
    if v:
        return stats, [v.to_json()], None
    ops = ops_for(types, leafs)
    seen = {json.dumps(o0, sort_keys=True)}
    frontier = [()]
    closed_at = None
    for d in range(DEPTH_CAP):
        nxt = []
        for hist in frontier:
            for op in ops:
                c = fresh(sp)
                for h in hist:
                    apply(c, h)
                ret = apply(c, op)
                stats['transitions'] += 1
                if op[0] == 'resolve' and json.dumps(ret, sort_keys=True) != json.dumps(exp[op[1]], sort_keys=True):
                    viols.append(common.Violation(
                        'wrong_fold:return_value:resolve', f'resolver answer for {op[1]} differs from the fold',
                        case=case(hist, op), expected=exp[op[1]], observed=ret).to_json())
                    continue
                o = observe(c, types)
                k = json.dumps(o, sort_keys=True)
                if k not in seen:
                    seen.add(k)
                    stats['states'] += 1
                    v = classify(o, hist, op)
                    if v is None:
                        v = common.Violation('state_changed:' + op[0], 'operation changed the observable state',
                                             case=case(hist, op))
                    viols.append(v.to_json())
                    nxt.append(hist + (op,))
        if viols:
            break
        if not nxt:
            closed_at = d + 1
            break
        frontier = nxt
    return stats, viols[:10], closed_at


def _what(a, b):
    if not isinstance(a, dict) or not isinstance(b, dict):
        return 'step_set'
    return '+'.join(k for k in list(ATTRS) + ['reaches'] if a.get(k) != b.get(k))


def _diff(a, b, path=''):
    if type(a) is not type(b):
        return f'{path}: {a!r} -> {b!r}'
    if isinstance(a, dict):
        for k in sorted(set(a) | set(b)):
            if a.get(k) != b.get(k):
                return _diff(a.get(k), b.get(k), f'{path}/{k}')
    if isinstance(a, list):
        if len(a) != len(b):
            return f'{path}: list length {len(a)} -> {len(b)}: {json.dumps(b)[:300]}'
        for i, (x, y) in enumerate(zip(a, b)):
            if x != y:
                return _diff(x, y, f'{path}[{i}]')
    return f'{path}: {a!r} -> {b!r}'


@common.job
def deep_chain(job):
    """an inheritance chain longer than the recursion limit in force ('chains of any depth')"""
    import sys
    from ..langs import asset, assoc, spec, step, S, F, V, COL
    n, limit = job
    assets = [asset('T0', steps=[step('s', 'or', reaches=[S('s')]), step('t', 'or')], variables=[('v1', F('bb'))])]
    for i in range(1, n):
        kind = ('none', 'ext', 'over')[i % 3] if i < n - 1 else 'ext'
        reaches = None if kind == 'none' else [COL(V('v1'), S('t'))] if i == n - 1 else [S('s')]
        assets.append(asset(f'T{i}', sup=f'T{i - 1}', steps=[step('s', 'or', reaches=reaches, overrides=(kind == 'over'))]))
    sp = spec(assets, [assoc('Ln', 'T0', 'aa', '*', '*', 'bb', 'T0')], lang_id='org.verif.deep')
    pristine = json.dumps(sp, sort_keys=True)
    case = {'deep_chain': n, 'recursion_limit': limit}
    old = sys.getrecursionlimit()
    viols = []
    try:
        sys.setrecursionlimit(limit)
        try:
            from maltoolbox.language import LanguageGraph
            lg = LanguageGraph(sp)
            got = {t: lg._get_attacks_for_asset_type(t) for t in (f'T{n - 1}', f'T{n // 2}', 'T1')}
            assocs = len(lg.get_asset_by_name(f'T{n - 1}').associations)
        except RecursionError:
            viols.append(common.Violation('deep_chain:recursion_error',
                                          f'an inheritance chain of {n} levels cannot be loaded under a recursion limit of {limit}', case=case))
            got = None
    finally:
        sys.setrecursionlimit(old)
    if got is not None:
        for t, steps in got.items():
            want = inherit.resolve(sp, t)
            have = {k: (v['reaches']['stepExpressions'] if v['reaches'] else []) for k, v in steps.items()}
            if have != {k: r['reaches'] for k, r in want.items()}:
                viols.append(common.Violation('deep_chain:fold_differs', f'{t}: resolved steps differ from the root-down fold', case=case))
        if assocs != 1:
            viols.append(common.Violation('deep_chain:associations', 'the leaf type does not list the association inherited from the root', case=case))
        if json.dumps(sp, sort_keys=True) != pristine:
            viols.append(common.Violation('deep_chain:spec_modified', 'the specification was modified', case=case))
    return {'deep_chains': 1, 'transitions': 3}, [v.to_json() for v in viols]


def run(tier, seed):
    res = common.Result(PROP, tier, seed, 'model_checking')
    res.rule = ('one transition system per INH language shape (every assignment of absent / no-reaches / '
                '-> / +> to each inheritance level); transitions = resolve(T), regenerate, rebuild language '
                'graph, build classes, generate attack graphs; BFS until no new observable state '
                '(closure) - a pure implementation closes at depth 1 with one state per language')
    res.assumptions = ["every level declares the step with its own tags / meta / TTC: '->' must replace them, '+>' and a bare re-declaration must keep the inherited ones"]
    jobs = [(s, False) for s in families.inh_shapes(False)]
    jobs += [(s, True) for s in families.inh_shapes(True)]
    jobs = common.rotate(jobs, seed)
    closed = 0
    for stats, viols, closed_at in common.pmap(check_language, jobs, chunksize=8):
        res.merge_counts(stats)
        res.add_violations(viols)
        if closed_at == 1:
            closed += 1
    for stats, viols in common.pmap(deep_chain, [(400, 350)] + ([(1500, 1000)] if tier == 'thorough' else [])):
        res.merge_counts(stats)
        res.add_violations(viols)
    res.sample({'shape': jobs[0][0], 'ops': [list(o) for o in ops_for(['Rr', 'Mm', 'L1', 'L2'], ['L1', 'L2'])]})
    res.bounds = {'languages': len(jobs), 'closed_at_depth_1': closed, 'depth_cap_if_not_closed': DEPTH_CAP,
                  'inheritance_depth': '3 and 4 (two siblings at each of the lower levels)'}
    c = res.counters
    c['evaluations'] = c.get('transitions', 0)
    c['distinct_nontrivial'] = sum(1 for s, _ in jobs if sum(1 for v in s.values() if v != 'absent') >= 2)
    c['traces_validated_against_impl'] = c.get('transitions', 0)
    res.exhaustive = (closed == len(jobs))
    if closed != len(jobs):
        res.notes.append('not every language closed: see violations')
    return res.finish()


def replay(path):
    j = json.load(open(path))
    c = j['case']
    if 'deep_chain' in c:
        import sys
        return common.rerun(PROP, path, sys.modules[__name__])
    stats, viols, closed = check_language((c['shape'], c['depth4']))
    for v in viols:
        print('reproduced:', v['key'], v['what'])
    if viols:
        print(f'VIOLATION property={PROP} replay={path}')
        return 1
    print('not reproduced')
    return 0
