"""C07 - saving and loading a model preserves it (states from engine H x formats x key orders)."""
import copy
import itertools
import json

import yaml

from .. import common, engine_hist, families, langs, sandbox
from ..refmodel import ModelSystem
from ..refs import inherit

PROP = 'C07'
NASTY = ['yes', '1', 'null', 'a: b', ' # x', 'é→', '{', '~', 'true', "it's", '"q"', '- x', '0x1F', '1e3', 'n:1',
         '\U0001f512 lock', 'tab\tname', 'line\nbreak', '\u2028sep', '\\back\\slash', '<&>', '%s', '']
FORMATS = ['json', 'yml', 'yaml']
HANDWRITTEN_DEPTH = 3      # hand-written permutations for every content reachable in <= 3 calls (+ all decorated models)


def lang_spec(name):
    if name == 'CAPDEF':
        # defenses whose names start with a capital letter (one of them differs from a built-in attribute only by case)
        return langs.spec([
            langs.asset('Host', steps=[langs.step('Hardened', 'defense', ttc=langs.fn('Disabled'), reaches=[langs.S('access')]),
                                       langs.step('patched', 'defense', reaches=[langs.S('access')]),
                                       langs.step('Name', 'defense', ttc=langs.fn('Enabled'), reaches=[langs.S('access')]),
                                       langs.step('access', 'or')]),
            langs.asset('Server', sup='Host', steps=[langs.step('Locked', 'defense', reaches=[langs.S('access')])]),
        ], [langs.assoc('Conn', 'Host', 'clients', '*', '*', 'servers', 'Server')], lang_id='org.verif.capdef')
    if name in ('CLSsamepair', 'CLSnoassoc', 'CLSswapfields', 'CLSunderscore', 'CLSjoined'):
        return families.cls_langs()[name[3:]]
    if name == 'CLSopp':
        return families.cls_langs()['opposite']
    return {'OPS': families.ops_lang, 'OPS2': families.ops2_lang, 'FR': families.fr_lang}[name]()


def make_system(arg):
    name, = arg
    if name == 'OPS2':      # two inheritance levels below the declared association ends (Crate < Box < Thing)
        cfg = {'name': name, 'spec': families.ops2_lang(), 'types': ['Crate', 'Item'], 'pair_classes': ['Part'],
               'ep_steps': ['use', 'open'], 'invalid_ops': False, 'max_assets': 3, 'max_assocs': 2, 'max_attackers': 1}
    else:
        cfg = {'name': name, 'spec': families.ops_lang(), 'types': ['Host', 'Data'],
               'pair_classes': ['Peer', 'Holds'], 'ep_steps': ['access', 'read'], 'invalid_ops': False,
               'max_assets': 3, 'max_assocs': 2, 'max_attackers': 2}
    return ModelSystem(cfg)


def extra_plain_models():
    """(language name, PlainModel) pairs over languages with re-used field names / deep inheritance"""
    from ..refs.sem import PlainModel
    out = []
    out.append(('FR', PlainModel([('fo', 'Folder'), ('fi', 'File'), ('ch', 'Chunk'), ('se', 'Server'), ('di', 'Disk'),
                                  ('of', 'Office'), ('pr', 'Printer')],
                                 [('InFolder', 'parent', ['fo'], 'files', ['fi']), ('InFile', 'parent', ['fi'], 'chunks', ['ch']),
                                  ('Has_Server_Disk', 'owner', ['se'], 'parts', ['di']),
                                  ('Has_Office_Printer', 'owner', ['of'], 'parts', ['pr'])])))
    out.append(('FR', PlainModel([('of', 'Office'), ('pr', 'Printer'), ('p2', 'Printer'), ('se', 'Server'), ('di', 'Disk')],
                                 [('Has_Office_Printer', 'owner', ['of'], 'parts', ['pr', 'p2']),
                                  ('Has_Server_Disk', 'owner', ['se'], 'parts', ['di'])])))
    # the same association name between the same two types in opposite directions, both used in one model
    out.append(('CLSopp', PlainModel([('h', 'Hh'), ('s', 'Ss'), ('h2', 'H2'), ('s2', 'Ss')],
                                     [('Uses_Hh_Ss', 'users', ['h', 'h2'], 'used', ['s']),
                                      ('Uses_Ss_Hh', 'clients', ['s', 's2'], 'server', ['h2'])])))
    out.append(('CLSopp', PlainModel([('s', 'Ss'), ('h', 'Hh')],
                                     [('Uses_Ss_Hh', 'clients', ['s'], 'server', ['h']),
                                      ('Uses_Hh_Ss', 'users', ['h'], 'used', ['s'])])))
    # the same association name between the same two types in the same direction: only the fields differ
    out.append(('CLSsamepair', PlainModel([('h1', 'Host'), ('h2', 'Host'), ('d1', 'Disk'), ('d2', 'Ssd'), ('d3', 'Disk')],
                                          [('Storage_Host_Disk', 'primaryHost', ['h1'], 'primary', ['d1']),
                                           ('Storage_Host_Disk_backupHost_backups', 'backupHost', ['h1'], 'backups', ['d2', 'd3']),
                                           ('Storage_Host_Disk_backupHost_backups', 'backupHost', ['h2'], 'backups', ['d1']),
                                           ('Storage_Disk_Disk', 'mirrorOf', ['d1'], 'mirrors', ['d2']),
                                           ('Storage_Disk_Disk_before_after', 'before', ['d2'], 'after', ['d3'])])))
    out.append(('CLSsamepair', PlainModel([('d1', 'Disk'), ('h1', 'Host')],
                                          [('Storage_Host_Disk_backupHost_backups', 'backupHost', ['h1'], 'backups', ['d1']),
                                           ('Storage_Disk_Disk_before_after', 'before', ['d1'], 'after', ['d1'])])))
    out.append(('CLSswapfields', PlainModel([('h1', 'Host'), ('h2', 'Host'), ('r1', 'Router'), ('r2', 'Edge')],
                                            [('Flow_Host_Router_dst_src', 'dst', ['h1'], 'src', ['r1']),
                                             ('Flow_Host_Router', 'src', ['h1', 'h2'], 'dst', ['r2']),
                                             ('Flow_Host_Router_dst_src', 'dst', ['h2'], 'src', ['r2'])])))
    out.append(('CLSswapfields', PlainModel([('r1', 'Router'), ('h1', 'Host')],
                                            [('Flow_Host_Router_dst_src', 'dst', ['h1'], 'src', ['r1'])])))
    out.append(('CLSunderscore', PlainModel([('n', 'Net'), ('zh', 'Zone_Host'), ('nz', 'Net_Zone'), ('h', 'Host')],
                                            [('Conn_Net_Zone_Host_zones_members', 'zones', ['n'], 'members', ['zh']),
                                             ('Conn_Net_Zone_Host', 'zones', ['nz'], 'members', ['h'])])))
    out.append(('CLSunderscore', PlainModel([('n', 'Net'), ('zh', 'Zone_Host')],
                                            [('Conn_Net_Zone_Host_zones_members', 'zones', ['n'], 'members', ['zh'])])))
    out.append(('CLSjoined', PlainModel([('wa', 'Web_App'), ('d', 'Data'), ('w', 'Web'), ('ad', 'App_Data'), ('h', 'Host'), ('a1', 'App'), ('a2', 'App')],
                                        [('?Link', 'apps', ['wa'], 'stores', ['d']),
                                         ('?Link', 'fronts', ['w'], 'backing', ['ad']),
                                         ('?Link', 'fronts', ['wa'], 'backing', ['d']),
                                         ('?Link', 'hosts', ['h'], 'apps', ['a1', 'a2']),
                                         ('Link_Host_App', 'peerOf', ['a1'], 'peer', ['a2'])])))
    out.append(('CAPDEF', PlainModel([('web', 'Host'), ('db', 'Server'), ('h2', 'Host')], [('Conn', 'clients', ['web', 'h2'], 'servers', ['db'])]),
                {'web': {'Hardened': 1.0, 'Name': 0.25, 'patched': 0.5}, 'db': {'Locked': 1.0, 'Hardened': 0.5, 'Name': 0.0}}))
    out.append(('CLSnoassoc', PlainModel([('a1', 'Aa'), ('b1', 'Bb'), ('a2', 'Aa')], [])))
    out.append(('OPS2', PlainModel([('c1', 'Crate'), ('c2', 'Crate'), ('i1', 'Item'), ('i2', 'Item')],
                                   [('Part', 'whole', ['c1'], 'parts', ['c2', 'i1']), ('Contain', 'container', ['c2'], 'inside', ['i1', 'i2']),
                                    ('Pair', 'crateA', ['c1', 'c2'], 'itemsB', ['i1', 'i2'])])))
    return out


def defenses_of(sp, t):
    return [n for n, r in inherit.resolve(sp, t).items() if r['decl']['type'] == 'defense']


def _idof(o):
    """id of a referenced asset; a reference the loader could not resolve (None, or an object without a
    usable id) is content too - it must show up as a difference, not crash the harness (seed C07-6)"""
    try:
        return int(o.id)
    except Exception:  # noqa: BLE001
        return 'DANGLING:' + type(o).__name__


def content(m, sp):
    """what C07 compares, read from the live objects (not through _to_dict)"""
    assets = {}
    for a in m.assets:
        ex = a.extras
        ex = ex.as_dict() if hasattr(ex, 'as_dict') else (ex._value if hasattr(ex, '_value') else ex)
        assets[int(a.id)] = {'name': str(a.name), 'type': str(a.type),
                             'defenses': {d: float(getattr(a, d)) for d in defenses_of(sp, str(a.type))},
                             'extras': json.loads(json.dumps(ex, default=_lit))}
    assocs = []
    for x in m.associations:
        lf, rf = list(x._properties.keys())
        ex = getattr(x, 'extras', {})
        ex = ex._value if hasattr(ex, '_value') else ex
        assocs.append((type(x).__name__, (str(lf), sorted((_idof(o) for o in getattr(x, lf)), key=repr)),
                       (str(rf), sorted((_idof(o) for o in getattr(x, rf)), key=repr)),
                       json.dumps(json.loads(json.dumps(ex, default=_lit)), sort_keys=True)))
    atts = {}
    for t in m.attackers:
        atts[t.id] = {'name': t.name, 'entry_points': {_idof(a): list(s) for a, s in t.entry_points}}
    return {'name': m.name, 'assets': assets, 'associations': sorted(assocs, key=repr), 'attackers': atts}


def _lit(o):
    return o._value if hasattr(o, '_value') else repr(o)


def roundtrip(fx, sp, m, case, stats, formats=FORMATS):
    from maltoolbox.model import Model
    viols = []

    def V(key, what, **kw):
        viols.append(common.Violation(key, what, case=case, **kw).to_json())
    want = content(m, sp)
    for fmt in formats:
        p = sandbox.tmpfile('.' + fmt)
        try:
            m.save_to_file(p)
        except Exception as e:  # noqa: BLE001
            V(f'save_raised:{type(e).__name__}:{"json" if fmt == "json" else "yaml"}', f'save_to_file(.{fmt}) raised {e}')
            continue
        if content(m, sp) != want:
            V('save_changed_model', 'saving modified the model')
        try:
            m2 = Model.load_from_file(p, fx.factory)
        except Exception as e:  # noqa: BLE001
            V(f'load_raised:{type(e).__name__}:{"json" if fmt == "json" else "yaml"}', f'load_from_file(.{fmt}) raised {e}')
            continue
        stats['roundtrips'] = stats.get('roundtrips', 0) + 1
        got = content(m2, sp)
        for part in ('name', 'assets', 'associations', 'attackers'):
            if got[part] != want[part]:
                V(f'load_differs:{part}:{"json" if fmt == "json" else "yaml"}' + _aspect(part, want[part], got[part]),
                  f'loaded model differs in {part}',
                  expected=want[part], observed=got[part])
                break
        else:
            p2 = sandbox.tmpfile('.' + fmt)
            try:
                m2.save_to_file(p2)
                if _parse(p2) != _parse(p):
                    V('second_save_differs', 'save(load(save(m))) has different content')
            except Exception as e:  # noqa: BLE001
                V(f'second_save_raised:{type(e).__name__}', f'{e}')
    return viols


def _aspect(part, want, got):
    if part == 'assets':
        if set(want) != set(got):
            return ':ids'
        for i in want:
            for k in want[i]:
                if want[i][k] != got[i][k]:
                    return ':' + k
    if part == 'associations':
        if [w[:3] for w in want] == [g[:3] for g in got]:
            return ':extras'
    return ''


def _parse(p):
    if p.endswith('.json'):
        return json.load(open(p, encoding='utf-8'))
    return yaml.safe_load(open(p, encoding='utf-8'))


def handwritten(fx, sp, m, case, stats):
    """permuted asset order / id 0 anywhere / type-only shorthand, written by hand (not by save)"""
    from maltoolbox.model import Model
    viols = []
    d = m._to_dict()
    d = json.loads(json.dumps(d, default=_lit))          # plain data, string keys as in a file
    want = content(m, sp)
    ids = list(d['assets'])
    perms = list(itertools.permutations(ids)) if len(ids) <= 3 else [ids[::-1], ids[1:] + ids[:1]]
    for perm in perms:
        for shorthand in (False, True):
            dd = copy.deepcopy(d)
            dd['assets'] = {}
            w = copy.deepcopy(want)
            for i in perm:
                v = d['assets'][i]
                if shorthand and set(v) <= {'name', 'type'}:
                    dd['assets'][i] = v['type']
                    w['assets'][int(i)]['name'] = f"{v['type']}:{i}"
                else:
                    dd['assets'][i] = v
            if len({a['name'] for a in w['assets'].values()}) != len(w['assets']):
                continue                                     # shorthand name would clash: not a model
            for fmt in ('json', 'yml'):
                p = sandbox.tmpfile('.' + fmt)
                with open(p, 'w', encoding='utf-8') as f:
                    if fmt == 'json':
                        json.dump(dd, f)
                    else:
                        yaml.safe_dump(dd, f, sort_keys=False, allow_unicode=True)
                c2 = dict(case, file_asset_order=list(perm), shorthand=shorthand, format=fmt)
                try:
                    m2 = Model.load_from_file(p, fx.factory)
                except Exception as e:  # noqa: BLE001
                    viols.append(common.Violation(f'handwritten_load_raised:{type(e).__name__}', f'hand-written file does not load: {e}',
                                                  case=c2).to_json())
                    continue
                stats['handwritten_loads'] = stats.get('handwritten_loads', 0) + 1
                got = content(m2, sp)
                for part in ('assets', 'associations', 'attackers'):
                    if got[part] != w[part]:
                        viols.append(common.Violation(f'handwritten_differs:{part}' + _aspect(part, w[part], got[part]),
                                                      'hand-written file loads to a different model', case=c2,
                                                      expected=w[part], observed=got[part]).to_json())
                        break
    return viols


# ---- decorated models built directly (nasty names, defenses, extras)

def decorated_models():
    out = []
    k = 0
    for n in (1, 2, 3):
        for types in itertools.product(('Host', 'Data'), repeat=n):
            for dv in (None, 0.5, 0.0, 1.0):
                for ex in (False, True):
                    names = [NASTY[(k + i) % len(NASTY)] for i in range(n)]
                    k += 1
                    out.append({'types': types, 'names': names, 'defense': dv, 'extras': ex})
    return out


def build_decorated(fx, d):
    from maltoolbox.model import Model, AttackerAttachment
    m = Model('model é "x": y \U0001f512', fx.factory)
    objs = []
    for t, nm in zip(d['types'], d['names']):
        kw = {'name': nm}
        if d['defense'] is not None:
            kw['encrypted' if t == 'Data' else 'hardened'] = d['defense']
            if t == 'Host':
                kw['patched'] = 1.0 - d['defense']
        o = getattr(fx.ns, t)(**kw)
        if d['extras']:
            o.extras = {'k': 1, 'pos': {'x': 1.5, 'y': [1, 2]}, 'tiny': 1e-07, 'huge': 1e+22, 'neg': -0.0, 'uni': '\U0001f512', 'flag': True, 'none': None}
        m.add_asset(o)
        objs.append(o)
    hosts = [o for o in objs if str(o.type) == 'Host']
    datas = [o for o in objs if str(o.type) == 'Data']
    if len(hosts) >= 2:
        x = fx.ns.Peer(peers=[hosts[0]], peersOf=[hosts[1]])
        m.add_association(x)
        if d['extras']:
            x.extras = {'k': 1}
        m.add_association(fx.ns.Link_Node_Node(nodeL=[hosts[1]], nodeR=[hosts[0]]))
    if hosts and datas:
        x = fx.ns.Link_Host_Data(hostL=[hosts[0]], dataL=datas)
        m.add_association(x)
        if d['extras']:
            x.extras = {'zz': 'after', 'Aa': 'before'}
        m.add_association(fx.ns.Holds(owner=[hosts[0]], datas=[datas[0]]))
    at = AttackerAttachment(name='att: "é" \U0001f512')
    m.add_attacker(at)
    for o in objs[:2]:
        at.add_entry_point(o, 'access' if str(o.type) == 'Host' else 'read')
    if objs:
        at.add_entry_point(objs[0], 'breach' if str(objs[0].type) == 'Host' else 'read')
    m.add_attacker(AttackerAttachment(), attacker_id=-7)
    return m


@common.job
def _job(job):
    kind, items = job
    sp = families.ops_lang()
    fx = langs.fixture(sp)
    stats, viols = {}, []
    if kind == 'hist':
        lname, hists = items if isinstance(items, tuple) else ('OPS', items)
        sp = lang_spec(lname)
        system = engine_hist._system(make_system, (lname,))
        for hist in hists:
            c = engine_hist.replay(system, hist)
            case = {'source': 'history', 'language': lname, 'history': [list(h) for h in hist]}
            # the third extension (.yaml) takes the same code path as .yml: it is exercised on every model
            # reachable in <= 3 calls and on all decorated / shipped models
            viols += roundtrip(system.fx, sp, c.model, case, stats,
                               formats=FORMATS if len(hist) <= HANDWRITTEN_DEPTH else FORMATS[:2])
            if len(hist) <= HANDWRITTEN_DEPTH:
                viols += handwritten(system.fx, sp, c.model, case, stats)
            stats['models'] = stats.get('models', 0) + 1
    elif kind == 'cross':
        # several languages that share asset type names ('Data', 'Host', ...) are used alternately in ONE process:
        # what one language's models leave behind must not leak into the next one's files
        import os
        from .. import modelgen
        core = langs.mar_spec(os.path.join(sandbox.TESTDATA, 'org.mal-lang.coreLang-1.0.0.mar'))
        alt = families.spec([families.asset('Data', steps=[families.step('read', 'or'), families.step('sealed', 'defense', ttc=families.fn('Enabled')),
                                                            families.step('encrypted', 'defense')]),
                             families.asset('Host', steps=[families.step('access', 'or'), families.step('patched', 'defense', ttc=families.fn('Enabled'))])],
                            [families.assoc('Holds', 'Host', 'owner', '0..1', '*', 'datas', 'Data')], lang_id='org.verif.alt')
        rounds = [('OPS', families.ops_lang(), [('h', 'Host', {'patched': 1.0}), ('d', 'Data', {'encrypted': 0.5})]),
                  ('ALT', alt, [('h', 'Host', {'patched': 0.0}), ('d', 'Data', {'sealed': 0.0, 'encrypted': 1.0})]),
                  ('coreLang', core, [('h', 'Application', {'notPresent': 1.0}), ('d', 'Data', {'notPresent': 0.5})]),
                  ('OPS', families.ops_lang(), [('h', 'Host', {'hardened': 0.0}), ('d', 'Data', {'encrypted': 1.0})]),
                  ('ALT', alt, [('h', 'Host', {}), ('d', 'Data', {'sealed': 0.5})])]
        from maltoolbox.model import Model
        for k, (lname, spx, assets) in enumerate(rounds * 2):
            fxx = langs.fixture(spx, key='cross:' + lname)
            m = Model(f'cross {k}', fxx.factory)
            for nm, t, dv in assets:
                m.add_asset(getattr(fxx.ns, t)(name=nm, **dv))
            viols += roundtrip(fxx, spx, m, {'source': 'cross_language', 'round': k, 'language': lname}, stats)
            stats['models'] = stats.get('models', 0) + 1
    elif kind == 'corelang':
        import os
        from maltoolbox.model import Model
        sp = langs.mar_spec(os.path.join(sandbox.TESTDATA, 'org.mal-lang.coreLang-1.0.0.mar'))
        fxc = langs.fixture(sp, key='coreLang')
        for fname in items:
            m = Model.load_from_file(os.path.join(sandbox.TESTDATA, fname), fxc.factory)
            case = {'source': 'file', 'language': 'coreLang', 'file': fname}
            viols += roundtrip(fxc, sp, m, case, stats)
            viols += handwritten(fxc, sp, m, case, stats)
            stats['models'] = stats.get('models', 0) + 1
    else:
        for d in items:
            m = build_decorated(fx, d)
            case = {'source': 'decorated', 'model': d}
            viols += roundtrip(fx, sp, m, case, stats)
            viols += handwritten(fx, sp, m, case, stats)
            stats['models'] = stats.get('models', 0) + 1
    return stats, viols[:60]


def run(tier, seed):
    res = common.Result(PROP, tier, seed, 'model_checking')
    res.rule = ('model states: (1) every distinct model content reached by the history search over add/remove asset, '
                'association, attacker, entry point with explicit / zero / negative ids (depth bound below); (2) directly '
                'built models with YAML-significant / unicode names, non-default defenses, asset and association extras, '
                'duplicate-named association classes; each x {json, yml, yaml} round trip + second save, and x every '
                'permutation of the asset mapping in a hand-written file x type-only shorthand')
    depth, K = (4, 1) if tier == 'quick' else (5, 1)
    scratch = common.Result(PROP, tier, seed, 'model_checking')
    reps = engine_hist.explore(make_system, ('OPS',), depth, K, scratch, seed, label=f'[OPS,D{depth},K{K}]')
    # dedupe by model content (many histories build the same model)
    system = engine_hist._system(make_system, ('OPS',))
    sp = families.ops_lang()
    by_content = {}
    for k in sorted(reps):
        hist = reps[k][0]
        if not hist or hist[-1][0] in ('remove_entry_point',):
            continue
        c = engine_hist.replay(system, hist)
        key = json.dumps(content(c.model, sp), sort_keys=True, default=repr)
        if key not in by_content or len(hist) < len(by_content[key]):
            by_content[key] = hist
    hists = common.rotate([by_content[k] for k in sorted(by_content)], seed)
    jobs = [('hist', ('OPS', hists[i:i + 16])) for i in range(0, len(hists), 16)]
    # several languages: a deeper inheritance chain with other multiplicities, and coreLang with the shipped models
    from . import c18
    h2 = c18.distinct_histories('OPS2', depth - 1, 0, scratch, seed)
    jobs += [('hist', ('OPS2', h2[i:i + 16])) for i in range(0, len(h2), 16)]
    jobs.append(('corelang', ['simple_example_model.json', 'scad_equivalent_model.yml']))
    jobs.append(('cross', None))
    dm = decorated_models()
    jobs += [('deco', dm[i:i + 4]) for i in range(0, len(dm), 4)]
    for stats, viols in common.pmap(_job, jobs):
        res.merge_counts(stats)
        res.add_violations(viols)
    res.bounds = dict(scratch.bounds)
    res.bounds.update({'distinct_model_contents': len(hists), 'decorated_models': len(dm)})
    res.sample({'history': hists[-1] if hists else None, 'decorated': dm[-1]})
    c = res.counters
    c['states'] = c.get('models', 0)
    c['transitions'] = c.get('roundtrips', 0) + c.get('handwritten_loads', 0)
    c['traces_validated_against_impl'] = c['transitions']
    c['evaluations'] = c['transitions']
    c['distinct_nontrivial'] = c.get('models', 0)
    return res.finish()


def replay(path):
    j = json.load(open(path))
    c = j['case']
    sp = families.ops_lang()
    stats = {}
    if c['source'] == 'history':
        lname = c.get('language', 'OPS')
        sp = lang_spec(lname)
        system = make_system((lname,))
        hist = tuple(tuple(_t(x) for x in op) for op in c['history'])
        ctx = engine_hist.replay(system, hist)
        vs = roundtrip(system.fx, sp, ctx.model, c, stats) + handwritten(system.fx, sp, ctx.model, c, stats)
    elif c['source'] == 'file':
        stats, vs = _job(('corelang', [c['file']]))
    elif c['source'] == 'cross_language':
        stats, vs = _job(('cross', None))
    else:
        fx = langs.fixture(sp)
        d = dict(c['model'])
        d['types'] = tuple(d['types'])
        m = build_decorated(fx, d)
        vs = roundtrip(fx, sp, m, c, stats) + handwritten(fx, sp, m, c, stats)
    for v in vs:
        print('reproduced:', v['key'], v['what'])
    if vs:
        print(f'VIOLATION property={PROP} replay={path}')
        return 1
    print('not reproduced')
    return 0


def _t(x):
    return tuple(_t(y) for y in x) if isinstance(x, list) else x
