"""C04 - the MAL compiler's output is the language the source text denotes (engine E over programs)."""
import itertools
import json
import os

from .. import common, langs, sandbox
from ..langs import COL, F, S, V, asset, assoc, fn, spec, step
from ..refs import unparse

PROP = 'C04'
SETOPS = ('union', 'intersection', 'difference')


# --------------------------------------------------------------------------- generators (syntactic)

def gen_expr(k, memo):
    if k in memo:
        return memo[k]
    out = []
    if k == 0:
        out = [F('f1'), F('f2'), V('v1')]
    else:
        for i in range(k):
            for l in gen_expr(i, memo):
                for r in gen_expr(k - 1 - i, memo):
                    out.append({'type': 'collect', 'lhs': l, 'rhs': r})
                    for op in SETOPS:
                        out.append({'type': op, 'lhs': l, 'rhs': r})
        for e in gen_expr(k - 1, memo):
            out.append({'type': 'transitive', 'stepExpression': e})
            for t in ('T1', 'T2'):
                out.append({'type': 'subType', 'subType': t, 'stepExpression': e})
    memo[k] = out
    return out


def gen_ttc(k, memo):
    if k in memo:
        return memo[k]
    out = []
    if k == 0:
        out = [fn('Dist'), fn('Exponential', 1.5), fn('Gamma', 1, 2.25), {'type': 'number', 'value': 3.0}]
    else:
        for i in range(k):
            for l in gen_ttc(i, memo):
                for r in gen_ttc(k - 1 - i, memo):
                    for op in ('addition', 'subtraction', 'multiplication', 'division', 'exponentiation'):
                        out.append({'type': op, 'lhs': l, 'rhs': r})
    memo[k] = out
    return out


# --------------------------------------------------------------------------- compile helper

def compile_text(files):
    """files: {name: text}; the first is the root. -> compiled spec"""
    from maltoolbox.language.compiler import MalCompiler
    import shutil
    d = sandbox.tmpfile('_d')
    shutil.rmtree(d, ignore_errors=True)
    os.makedirs(d, exist_ok=True)
    root = None
    for n, t in files.items():
        if n.startswith('@'):
            continue
        os.makedirs(os.path.dirname(os.path.join(d, n)), exist_ok=True)
        with open(os.path.join(d, n), 'w', encoding='utf-8') as f:
            f.write(t)
        root = root or os.path.join(d, n)
    comp = MalCompiler()
    if files.get('@reuse'):
        # the same compiler object compiled another language, in another directory, before
        d2 = sandbox.tmpfile('_d2')
        os.makedirs(d2, exist_ok=True)
        with open(os.path.join(d2, 'other.mal'), 'w', encoding='utf-8') as f:
            f.write(files['@reuse'])
        comp.compile(os.path.join(d2, 'other.mal'))
    return comp.compile(root)


def roundtrip(sp, what, stats, viols, classify=None):
    txt = unparse.unparse(sp)
    try:
        got = compile_text({'main.mal': txt})
    except Exception as e:  # noqa: BLE001
        viols.append(common.Violation(f'compile_raised:{what}:{type(e).__name__}', f'compiling a well-formed program raised {e}',
                                      case={'what': what, 'source': txt[:1500]}).to_json())
        return
    stats['programs'] = stats.get('programs', 0) + 1
    if got != sp:
        path, a, b = first_diff(sp, got)
        key = f'roundtrip_differs:{what}'
        if classify:
            key += ':' + classify(path, a, b)
        viols.append(common.Violation(key, f'compile(unparse(spec)) differs from spec at {path}',
                                      case={'what': what, 'path': path, 'source_excerpt': _excerpt(txt, a)},
                                      expected=a, observed=b).to_json())


def _excerpt(txt, a):
    return txt[:800]


def first_diff(a, b, path=''):
    if type(a) is not type(b) and not (isinstance(a, (int, float)) and isinstance(b, (int, float))):
        return path, a, b
    if isinstance(a, dict):
        for k in list(a) + [k for k in b if k not in a]:
            if k not in a or k not in b:
                return f'{path}/{k}', a.get(k, '<absent>'), b.get(k, '<absent>')
            if a[k] != b[k]:
                return first_diff(a[k], b[k], f'{path}/{k}')
    if isinstance(a, list):
        if len(a) != len(b):
            return path + '/len', len(a), len(b)
        for i, (x, y) in enumerate(zip(a, b)):
            if x != y:
                return first_diff(x, y, f'{path}[{i}]')
    return path, a, b


def base_assets(steps, variables=()):
    return [asset('T1', steps=[step('s1', 'or')]),
            asset('T2', sup='T1'),
            asset('Xx', steps=list(steps), variables=[('v1', F('f1'))] + list(variables))]


BASE_ASSOC = [assoc('L1', 'Xx', 'f0', '*', '*', 'f1', 'T1'), assoc('L2', 'Xx', 'g0', '0..1', '1..*', 'f2', 'T1')]


def _ops_of(e):
    out = set()
    if isinstance(e, dict):
        if 'type' in e:
            out.add(e['type'])
        for v in e.values():
            out |= _ops_of(v)
    if isinstance(e, list):
        for v in e:
            out |= _ops_of(v)
    return out


# --------------------------------------------------------------------------- jobs

@common.job
def job_expr(job):
    ctx, exprs = job
    stats, viols = {}, []
    steps, variables = [], []
    reach = [COL(e, S('s1')) for e in exprs] if ctx in ('->', '+>') else list(exprs)
    groups = [[e] for e in reach] + [reach[i:i + 3] for i in range(0, max(len(reach) - 2, 0))]
    if ctx in ('->', '+>'):
        groups.append([S('s1')])
        groups.append([S('s1'), reach[0], S('s1')])
    for i, g in enumerate(groups):
        if ctx == '->':
            steps.append(step(f'a{i}', 'or', reaches=g))
        elif ctx == '+>':
            steps.append(step(f'a{i}', 'and', reaches=g, overrides=False))
        elif ctx == '<-':
            steps.append(step(f'a{i}', 'exist' if i % 2 else 'notExist', requires=g,
                              reaches=[COL(F('f1'), S('s1'))] if i % 3 == 0 else None))
        else:
            if len(g) == 1:
                variables.append((f'w{i}', g[0]))
    sp = spec(base_assets(steps, variables), BASE_ASSOC, lang_id='org.verif.syn')
    roundtrip(sp, 'expr' + ctx, stats, viols,
              classify=lambda path, a, b: '+'.join(sorted((_ops_of(a) | _ops_of(b)) - {'field', 'attackStep', 'variable'}))[:60])
    stats['expression_occurrences'] = sum(len(g) for g in groups)
    return stats, viols


@common.job
def job_ttc(job):
    exprs = job
    stats, viols = {}, []
    steps = [step(f'a{i}', 'or' if i % 2 else 'defense', ttc=t) for i, t in enumerate(exprs)]
    sp = spec(base_assets(steps), BASE_ASSOC, lang_id='org.verif.syn')
    roundtrip(sp, 'ttc', stats, viols,
              classify=lambda path, a, b: '+'.join(sorted((_ops_of(a) | _ops_of(b)) - {'function', 'number'}))[:60])
    stats['ttc_expressions'] = len(exprs)
    return stats, viols


MULT_FORMS = {'1': (1, 1), '0..1': (0, 1), '*': (0, None), '1..*': (1, None), '0..*': (0, None),
              '2': (2, 2), '2..3': (2, 3)}


@common.job
def job_misc(_job):
    stats, viols = {}, []
    # (c) every pair of multiplicity source forms
    lines, expect = [], []
    for i, (lf, rf) in enumerate(itertools.product(MULT_FORMS, repeat=2)):
        lines.append(f'  Xx [l{i}] {lf} <-- M{i} --> {rf} [r{i}] T1\n')
        a = assoc(f'M{i}', 'Xx', f'l{i}', '1', '1', f'r{i}', 'T1')
        a['leftMultiplicity'] = dict(zip(('min', 'max'), MULT_FORMS[lf]))
        a['rightMultiplicity'] = dict(zip(('min', 'max'), MULT_FORMS[rf]))
        expect.append(a)
    sp0 = spec(base_assets([]), [], lang_id='org.verif.syn')
    txt = unparse.unparse(sp0) + 'associations {\n' + ''.join(lines) + '}\n'
    try:
        got = compile_text({'main.mal': txt})
        stats['programs'] = stats.get('programs', 0) + 1
        if got['associations'] != expect:
            path, a, b = first_diff(expect, got['associations'])
            viols.append(common.Violation('multiplicity_wrong', f'association multiplicities differ at {path}',
                                          case={'what': 'multiplicities'}, expected=a, observed=b).to_json())
    except Exception as e:  # noqa: BLE001
        viols.append(common.Violation(f'compile_raised:multiplicities:{type(e).__name__}', str(e), case={'source': txt[:800]}).to_json())
    # (d) step forms
    steps = []
    kinds = ['or', 'and', 'defense', 'exist', 'notExist']
    cias = [None] + [dict(isConfidentiality=c, isIntegrity=i, isAvailability=a)
                     for c, i, a in itertools.product((False, True), repeat=3) if c or i or a]
    ttcs = [None, fn('Enabled'), fn('Exponential', 0.02), {'type': 'addition', 'lhs': fn('Exponential', 1), 'rhs': fn('Gamma', 1, 2)}]
    metas = [{}, {'user': 'some text'}, {'user': 'u', 'developer': 'd: with, punctuation -> and [brackets]', 'mitre': 'T1'}]
    n = 0
    for kind, tags, cia, ttc, meta in itertools.product(kinds, ((), ('t1',), ('t1', 't2')), cias, ttcs, metas):
        for reaches in (None, ('->', [S('s1')]), ('+>', [COL(F('f1'), S('s1')), S('s1')])):
            req = [F('f1'), COL(F('f1'), F('f0'))] if kind in ('exist', 'notExist') else None
            steps.append(step(f'a{n}', kind, tags=tags, risk=cia, ttc=ttc, meta=meta, requires=req,
                              reaches=None if reaches is None else reaches[1],
                              overrides=True if reaches is None else reaches[0] == '->'))
            n += 1
    for i in range(0, len(steps), 400):
        sp = spec(base_assets(steps[i:i + 400]), BASE_ASSOC, lang_id='org.verif.syn')
        roundtrip(sp, 'stepforms', stats, viols, classify=lambda path, a, b: path.split('/')[-1])
    stats['step_forms'] = len(steps)
    # (e) asset / category / define forms
    assets = []
    n = 0
    for abstract, sup, meta in itertools.product((False, True), (None, 'T1'), metas):
        for cat in ('CatA', 'CatB'):
            assets.append(asset(f'Z{n}', sup=sup, abstract=abstract, meta=meta, category=cat,
                                steps=[step('zz', 'or')] if n % 2 else []))
            n += 1
    sp = spec([asset('T1', steps=[step('s1', 'or')], category='CatA')] + assets, BASE_ASSOC[:0], lang_id='org.verif.syn',
              categories=[{'name': 'CatA', 'meta': {'user': 'category text'}}, {'name': 'CatB', 'meta': {}},
                          {'name': 'CatEmpty', 'meta': {'developer': 'x'}}],
              defines={'extra': 'value with spaces', 'k2': ''})
    roundtrip(sp, 'assetforms', stats, viols, classify=lambda path, a, b: path.split('/')[-1])
    a2 = assoc('Lm', 'T1', 'aa', '1', '*', 'bb', 'T1', meta={'user': 'assoc text', 'developer': 'dev'})
    sp = spec([asset('T1', steps=[step('s1', 'or')])], [a2, assoc('Lm', 'T1', 'cc', '*', '*', 'dd', 'T1')], lang_id='org.verif.syn')
    roundtrip(sp, 'assocforms', stats, viols, classify=lambda path, a, b: path.split('/')[-1])
    return stats, viols


def layout_program():
    """six top-level declarations"""
    sp = spec([asset('T1', steps=[step('s1', 'or', reaches=[COL(F('bb'), S('s1'))])], category='CatA'),
               asset('Xx', sup='T1', steps=[step('s1', 'or', reaches=[S('s2')], overrides=False), step('s2', 'and')],
                     category='CatB', variables=[('v1', F('bb'))]),
               asset('Yy', category='CatC', steps=[step('d1', 'defense', ttc=fn('Enabled'))])],
              [assoc('Lm', 'T1', 'aa', '1', '*', 'bb', 'T1')], lang_id='org.verif.lay',
              categories=[{'name': 'CatA', 'meta': {}}, {'name': 'CatB', 'meta': {'user': 'b'}}, {'name': 'CatC', 'meta': {}}])
    decls = unparse.declarations(sp)
    # order: define id, define version, CatA, CatB, CatC, associations  -> move associations before CatC
    decls = decls[:4] + [decls[5], decls[4]]
    sp2 = dict(sp)
    return decls


@common.job
def job_layouts(_job):
    stats, viols = {}, []
    decls = layout_program()
    try:
        single = compile_text({'main.mal': ''.join(decls)})
    except Exception as e:  # noqa: BLE001
        return stats, [common.Violation('compile_raised:layout_single', str(e)).to_json()]
    n = len(decls)
    layouts = []
    for i in range(n):
        for j in range(i + 1, n + 1):
            if (i, j) == (0, n):
                continue
            layouts.append(('segment', i, j))
    count = 0
    for kind, i, j in layouts:
        files = {'main.mal': ''.join(decls[:i]) + 'include "inc1.mal"\n' + ''.join(decls[j:]),
                 'inc1.mal': ''.join(decls[i:j])}
        variants = [('one_include', files)]
        # the same include repeated at the end of the root
        rep = dict(files)
        rep['main.mal'] = files['main.mal'] + 'include "inc1.mal"\n'
        variants.append(('repeated_include', rep))
        # two-level nesting: the segment's tail goes into a file included by the included file
        if j - i >= 2:
            for m in range(i + 1, j):
                variants.append(('nested', {
                    'main.mal': ''.join(decls[:i]) + 'include "inc1.mal"\n' + ''.join(decls[j:]),
                    'inc1.mal': ''.join(decls[i:m]) + 'include "inc2.mal"\n',
                    'inc2.mal': ''.join(decls[m:j])}))
        # two sibling includes
        if j - i >= 2:
            m = i + 1
            variants.append(('two_includes', {
                'main.mal': ''.join(decls[:i]) + 'include "inc1.mal"\ninclude "inc2.mal"\n' + ''.join(decls[j:]),
                'inc1.mal': ''.join(decls[i:m]), 'inc2.mal': ''.join(decls[m:j])}))
        decoy = 'category Decoy { asset NotIncluded { | bogus } }\n'
        main = ''.join(decls[:i]) + 'include "parts/inc1.mal"\n' + ''.join(decls[j:])
        # the included file lives in a sub-directory; an unrelated file of the same name sits next to the root
        variants.append(('subdir', {'main.mal': main, 'parts/inc1.mal': ''.join(decls[i:j])}))
        variants.append(('subdir_decoy', {'main.mal': main, 'parts/inc1.mal': ''.join(decls[i:j]), 'inc1.mal': decoy}))
        variants.append(('cyclic', {'main.mal': files['main.mal'], 'inc1.mal': ''.join(decls[i:j]) + 'include "main.mal"\n'}))
        variants.append(('compiler_reused', dict(files, **{'@reuse': '#id: "other"\n#version: "1.0.0"\n' + decoy})))
        if j - i >= 2:
            m = i + 1
            # an include inside an included file is relative to THAT file
            variants.append(('nested_relative', {'main.mal': main, 'parts/inc1.mal': ''.join(decls[i:m]) + 'include "inc2.mal"\n',
                                                 'parts/inc2.mal': ''.join(decls[m:j]), 'inc2.mal': decoy}))
            variants.append(('nested_updir', {'main.mal': main, 'parts/inc1.mal': ''.join(decls[i:m]) + 'include "../inc2.mal"\n',
                                              'inc2.mal': ''.join(decls[m:j]), 'parts/inc2.mal.bak': decoy}))
            variants.append(('nested_deeper', {'main.mal': main, 'parts/inc1.mal': ''.join(decls[i:m]) + 'include "more/inc2.mal"\n',
                                               'parts/more/inc2.mal': ''.join(decls[m:j])}))
        for vname, fs in variants:
            try:
                got = compile_text(fs)
            except Exception as e:  # noqa: BLE001
                viols.append(common.Violation(f'compile_raised:layout:{vname}:{type(e).__name__}', str(e),
                                              case={'layout': [kind, i, j], 'files': fs}).to_json())
                continue
            count += 1
            if got != single:
                path, a, b = first_diff(single, got)
                viols.append(common.Violation(f'layout_changes_result:{vname}', f'distributing declarations over files changes the result at {path}',
                                              case={'layout': [kind, i, j], 'files': fs}, expected=a, observed=b).to_json())
    stats['layouts'] = count
    stats['programs'] = count + 1
    return stats, viols


@common.job
def job_mar(name):
    stats, viols = {}, []
    sp = langs.mar_spec(os.path.join(sandbox.TESTDATA, name))
    roundtrip(sp, 'mar:' + name, stats, viols, classify=lambda path, a, b: path.split('/')[-1])
    stats['mar_specs'] = 1
    return stats, viols


def _dispatch(job):
    kind, arg = job
    return {'expr': job_expr, 'ttc': job_ttc, 'misc': job_misc, 'layouts': job_layouts, 'mar': job_mar}[kind](arg)


def run(tier, seed):
    res = common.Result(PROP, tier, seed, 'exploration')
    res.rule = ('programs generated from specifications: every step-expression tree up to the operator bound in the four '
                'contexts (->, +>, <-, let) alone and at first/middle/last list position; every TTC tree up to the bound; all '
                '49 multiplicity form pairs; the product of step kinds x tags x CIA subsets x TTC forms x meta x reaches forms; '
                'asset / category / define / association forms; every contiguous segment of a 6-declaration program moved to an '
                'included file (plus repeated, nested, sibling, sub-directory, relative-to-includer, cyclic includes, decoy files of the same name, a re-used compiler); both shipped .mar specifications. '
                'Oracle: compile(unparse(spec)) == spec; layouts agree. Distinct = distinct expression / TTC trees and forms')
    kexpr, kttc = (2, 2) if tier == 'quick' else (3, 3)
    memo = {}
    exprs = [e for k in range(kexpr + 1) for e in gen_expr(k, memo)]
    tm = {}
    ttcs = [e for k in range(kttc + 1) for e in gen_ttc(k, tm)]
    if tier == 'thorough':
        ttcs = ttcs[:len(ttcs)]
    jobs = []
    per = 60
    for ctx in ('->', '+>', '<-', 'let'):
        for i in range(0, len(exprs), per):
            jobs.append(('expr', (ctx, exprs[i:i + per])))
    for i in range(0, len(ttcs), 200):
        jobs.append(('ttc', ttcs[i:i + 200]))
    jobs += [('misc', None), ('layouts', None), ('mar', 'org.mal-lang.coreLang-1.0.0.mar'),
             ('mar', 'corelang-union-common-ancestor.mar')]
    jobs = common.rotate(jobs, seed)
    for stats, viols in common.pmap(_dispatch, jobs, chunksize=2):
        res.merge_counts(stats)
        res.add_violations(viols)
    res.bounds = {'expression_operators<=': kexpr, 'expressions': len(exprs), 'ttc_operators<=': kttc, 'ttc_trees': len(ttcs)}
    res.sample({'expression': unparse.expr(exprs[-1]), 'ttc': unparse.ttc(ttcs[-1])})
    c = res.counters
    c['evaluations'] = c.get('expression_occurrences', 0) + c.get('ttc_expressions', 0) + c.get('step_forms', 0) + \
        c.get('layouts', 0) + 49 + c.get('mar_specs', 0)
    c['distinct_nontrivial'] = 4 * len([e for e in exprs if e['type'] not in ('field', 'variable')]) + \
        len([t for t in ttcs if t['type'] not in ('function', 'number')]) + c.get('step_forms', 0) + c.get('layouts', 0)
    return res.finish()


def replay(path):
    import sys
    return common.rerun(PROP, path, sys.modules[__name__])
