"""C13 - pruning removes exactly the non-viable or unnecessary attack steps (engine E x orders)."""
import itertools
import json

from .. import common, refgraph

PROP = 'C13'
LABELS = [(True, True), (False, True), (True, False), (False, False)]
# a third component names a TTC distribution carried by the node (labels, not TTCs, decide pruning)
KINDS12 = [(t, l) for t in ('or', 'and') for l in LABELS] + \
          [('defense', (True, True)), ('defense', (False, False)), ('exist', (True, True)), ('notExist', (False, True))] + \
          [('or', (True, False), 'Exponential'), ('and', (False, True), 'Bernoulli')]
KINDS4 = [('or', (True, True)), ('or', (False, True)), ('and', (True, False)), ('defense', (False, True))]
KINDS2 = [('or', (True, True)), ('and', (False, False))]


def prunable(kind):
    t, (v, nec) = kind[0], kind[1]
    return t in ('or', 'and') and (not v or not nec)


def build(kinds, edges, order, attacker_on):
    from maltoolbox.attackgraph import AttackGraph, AttackGraphNode, Attacker
    g = AttackGraph()
    nodes = []
    for i, kind in enumerate(kinds):
        t, (v, nec) = kind[0], kind[1]
        ttc = {'type': 'function', 'name': kind[2], 'arguments': [0.5]} if len(kind) > 2 else None
        n = AttackGraphNode(type=t, name=f'n{i}', ttc=ttc, is_viable=v, is_necessary=nec)
        if t == 'defense':
            n.defense_status = 1.0
        if t in ('exist', 'notExist'):
            n.existence_status = True
        nodes.append(n)
    # explicit ids: the storage order of graph.nodes is `order`, independent of the id order
    for i in order:
        g.add_node(nodes[i], node_id=i)
    for a, b in edges:
        nodes[a].children.append(nodes[b])
        nodes[b].parents.append(nodes[a])
    if attacker_on is not None:
        att = Attacker(name='att', entry_points=[], reached_attack_steps=[])
        g.add_attacker(att, entry_points=[nodes[attacker_on].id], reached_attack_steps=[nodes[attacker_on].id])
    return g, nodes


def check(kinds, edges, order, attacker_on, stats):
    from maltoolbox.attackgraph.analyzers.apriori import prune_unviable_and_unnecessary_nodes
    g, nodes = build(kinds, edges, order, attacker_on)
    ids = [n.id for n in nodes]
    names = [n.full_name for n in nodes]
    case = {'kinds': kinds, 'edges': edges, 'order': list(order), 'attacker_on': attacker_on}
    try:
        prune_unviable_and_unnecessary_nodes(g)
    except Exception as e:  # noqa: BLE001
        return common.Violation(f'prune_raised:{type(e).__name__}', f'prune raised {e}', case=case)
    stats['prunes'] = stats.get('prunes', 0) + 1
    want = [i for i, k in enumerate(kinds) if not prunable(k)]
    got = [i for i, n in enumerate(nodes) if any(m is n for m in g.nodes)]
    if sorted(got) != want:
        left = [i for i in got if i not in want]
        key = 'prunable_node_survives' if left else 'kept_node_removed'
        adj = ''
        if left:
            pos = {v: k for k, v in enumerate(order)}
            if any(pos[i] > 0 and prunable(kinds[order[pos[i] - 1]]) for i in left):
                adj = ':adjacent_in_list'
        return common.Violation(key + adj, 'node set after pruning is not exactly the non-prunable nodes',
                                case=case, expected=want, observed=sorted(got))
    if len(g.nodes) != len(got):
        return common.Violation('foreign_node', 'graph holds nodes that were not there before', case=case)
    for i in want:
        if (nodes[i].is_viable, nodes[i].is_necessary) != kinds[i][1] or nodes[i].type != kinds[i][0]:
            return common.Violation('labels_changed', 'a surviving node changed its labels', case=case)
    try:
        refgraph.invariants(g, ids, names, [])
    except common.Violation as v:
        v.key = 'after_prune:' + v.key
        v.case = case
        return v
    if len(want) < len(kinds):
        stats['nontrivial'] = stats.get('nontrivial', 0) + 1
    # second round on the SAME graph object: relabel a surviving step by hand (labels are public attributes,
    # no full recalculation) and prune again - nothing remembered from the first pruning may get in the way
    victims = [i for i in want if kinds[i][0] in ('or', 'and')][:1]
    if victims:
        v0 = victims[0]
        nodes[v0].is_necessary = False
        try:
            prune_unviable_and_unnecessary_nodes(g)
        except Exception as e:  # noqa: BLE001
            return common.Violation(f'second_prune_raised:{type(e).__name__}', f'second prune raised {e}', case=case)
        stats['prunes'] += 1
        got2 = sorted(i for i, n in enumerate(nodes) if any(m is n for m in g.nodes))
        want2 = [i for i in want if i != v0]
        if got2 != want2:
            return common.Violation('second_prune_after_relabel_wrong',
                                    'after relabelling a surviving step and pruning again the node set is not exactly the non-prunable nodes',
                                    case=dict(case, relabelled=v0), expected=want2, observed=got2)
        try:
            refgraph.invariants(g, ids, names, [])
        except common.Violation as v:
            v.key = 'after_second_prune:' + v.key
            v.case = case
            return v
    return None


def shapes(n):
    idx = list(range(n))
    return {
        'chain': [(i, i + 1) for i in range(n - 1)],
        'cycle': [(i, (i + 1) % n) for i in idx],
        'fan_out': [(0, i) for i in idx[1:]],
        'fan_in': [(i, 0) for i in idx[1:]],
        'complete_with_loops': [(a, b) for a in idx for b in idx],
        'empty': [],
        'double_chain': [(i, i + 1) for i in range(n - 1)] + [(i + 1, i) for i in range(n - 1)],
    }


@common.job
def _job(job):
    mode, kinds, n = job
    stats, viols = {}, []
    kinds = [tuple(k) for k in kinds]
    if mode == 'all_edges':
        pairs = [(a, b) for a in range(n) for b in range(n)]
        esets = ([p for k, p in enumerate(pairs) if m >> k & 1] for m in range(1 << len(pairs)))
        orders = list(itertools.permutations(range(n)))
    else:
        esets = list(shapes(n).values())
        orders = list(itertools.permutations(range(n)))
    for edges in esets:
        for order in orders:
            for att in (None, 0, n - 1) if mode != 'all_edges' or order == orders[0] else (None,):
                v = check(kinds, edges, order, att, stats)
                if v is not None:
                    viols.append(v.to_json())
                    if len(viols) > 20:
                        return stats, viols
    return stats, viols


def run(tier, seed):
    res = common.Result(PROP, tier, seed, 'model_checking')
    res.rule = ('synthetic labelled attack graphs: n<=3 over 14 (type, viable, necessary[, TTC]) kinds with every subset of the '
                'n^2 edges, n=4 over 4 kinds and n=5 over 2 kinds (n=6 in thorough) with 7 structured edge shapes; every '
                'storage order of graph.nodes; with and without an attacker sitting on the first / last node; '
                'non-trivial = at least one node must be pruned')
    jobs = []
    for n in (1, 2, 3):
        for kinds in itertools.combinations_with_replacement(KINDS12, n):
            jobs.append(('all_edges', list(kinds), n))
    for kinds in itertools.product(KINDS4, repeat=4):
        jobs.append(('shapes', list(kinds), 4))
    for kinds in itertools.product(KINDS2, repeat=5):
        jobs.append(('shapes', list(kinds), 5))
    if tier == 'thorough':
        for kinds in itertools.product(KINDS2, repeat=6):
            jobs.append(('shapes', list(kinds), 6))
        for kinds in itertools.combinations_with_replacement(KINDS4, 4):
            jobs.append(('all_edges', list(kinds), 4))
    jobs = common.rotate(jobs, seed)
    for stats, viols in common.pmap(_job, jobs, chunksize=2):
        res.merge_counts(stats)
        res.add_violations(viols)
    res.sample({'kinds': jobs[0][1], 'mode': jobs[0][0]})
    res.bounds = {'n<=3': 'all edge sets x all orders', 'n=4,5': 'structured shapes x all orders',
                  'thorough': 'n=6 shapes; n=4 all 2^16 edge sets over 4 kinds'}
    c = res.counters
    c['states'] = c.get('prunes', 0)
    c['transitions'] = c.get('prunes', 0)
    c['traces_validated_against_impl'] = c.get('prunes', 0)
    c['evaluations'] = c.get('prunes', 0)
    c['distinct_nontrivial'] = c.get('nontrivial', 0)
    return res.finish()


def replay(path):
    j = json.load(open(path))
    c = j['case']
    v = check([tuple([k[0], tuple(k[1])] + list(k[2:])) for k in c['kinds']], [tuple(e) for e in c['edges']], c['order'], c['attacker_on'], {})
    if v is not None:
        print('reproduced:', v)
        print(f'VIOLATION property={PROP} replay={path}')
        return 1
    print('not reproduced')
    return 0
