"""C05 - the instance model stays coherent under any history of edits (engine H)."""
import json

from .. import common, engine_hist, families, langs, sandbox
from ..refmodel import ModelSystem

PROP = 'C05'


def cfg_ops():
    return {'name': 'OPS', 'spec': families.ops_lang(), 'types': ['Host', 'Data'],
            'pair_classes': ['Peer', 'Holds'], 'ep_steps': ['access', 'read']}


def cfg_ops2():
    return {'name': 'OPS2', 'spec': families.ops2_lang(), 'types': ['Crate', 'Item'],
            'pair_classes': ['Part', 'Pair'], 'ep_steps': ['use', 'open']}


def cfg_core():
    sp = langs.mar_spec(sandbox.TESTDATA + '/org.mal-lang.coreLang-1.0.0.mar')
    keep = {'Application', 'Data', 'Information', 'SoftwareProduct'}
    return {'name': 'coreLang', 'spec': sp, 'types': ['Application', 'Data'],
            'pair_classes': ['AppExecution'], 'ep_steps': ['read', 'fullAccess'],
            'assoc_filter': None}


# Non-initial start states (name -> prefix of valid calls).  'twins': two unnamed assets linked in the same
# way to a third one - the object graph on which value comparison of the generated classes does not
# terminate; 'selfpair': an asset on both sides of a two-member association plus an attacker on it.
STARTS = {
    'twins': [('add_asset', 'Host', None, None, True), ('add_asset', 'Host', None, None, True),
              ('add_asset', 'Host', None, None, True), ('add_association', 'Peer', (0,), (2,)),
              ('add_association', 'Peer', (1,), (2,)), ('add_attacker', None), ('add_entry_point', 0, 1, 'access')],
    'selfpair': [('add_asset', 'Host', 'n', None, True), ('add_asset', 'Host', None, None, True),
                 ('add_association', 'Peer', (0, 1), (0,)), ('add_asset', 'Data', None, None, True),
                 ('add_association', 'Holds', (0,), (2,)), ('add_attacker', None), ('add_entry_point', 0, 0, 'access'),
                 ('add_entry_point', 0, 2, 'read')],
    # an attacker holds an entry point on an object that was removed, while a new asset re-uses its id
    'stale_ep': [('add_asset', 'Host', None, None, True), ('add_asset', 'Data', 'n', None, True), ('remove_asset', 0),
                 ('add_asset', 'Host', None, 0, True), ('add_attacker', None), ('add_entry_point', 0, 0, 'access'),
                 ('add_entry_point', 0, 1, 'read')],
}


def make_system(name):
    if '@' in name:
        lang, start = name.split('@')
        cfg = {'OPS': cfg_ops}[lang]()
        cfg['prefix'] = STARTS[start]
        cfg['max_assets'] = 4
        cfg['max_assocs'] = 4
        return ModelSystem(cfg)
    cfg = {'OPS': cfg_ops, 'OPS2': cfg_ops2, 'coreLang': cfg_core}[name]()
    if name == 'coreLang':
        # slice: only associations whose both ends are satisfiable by the two asset types used
        sysm = ModelSystem(cfg)
        want = {'AppExecution', 'AppContainment', 'InfoContainment', 'SendData', 'ReceiveData'}
        sysm.assoc_classes = [a for a in sysm.assoc_classes if a['cls'].split('_')[0] in want]
        sysm.fields = sorted({c['lf'] for c in sysm.assoc_classes} | {c['rf'] for c in sysm.assoc_classes})
        return sysm
    return ModelSystem(cfg)


PLANS = {
    'quick': [('OPS', 6, 0), ('OPS', 4, 1), ('OPS', 3, 2), ('OPS2', 4, 1), ('OPS@twins', 2, 1), ('OPS@selfpair', 2, 1), ('OPS@stale_ep', 2, 1)],
    # (levels grow about tenfold per call: sized for roughly 2.5 million states, half an hour on 16 cores)
    'thorough': [('OPS', 7, 0), ('OPS', 5, 1), ('OPS', 4, 2), ('OPS2', 5, 1), ('OPS2', 3, 2), ('coreLang', 3, 1),
                 ('OPS@twins', 3, 1), ('OPS@selfpair', 3, 1), ('OPS@stale_ep', 3, 1)],
}


def run(tier, seed):
    res = common.Result(PROP, tier, seed, 'model_checking')
    res.rule = ('level-synchronous BFS over histories of Model/AttackerAttachment calls on real '
                'objects, lock-step reference model; a state is distinct iff the canonical dump of '
                'the whole real object graph plus the reference state differs')
    res.assumptions = ['python_jsonschema_objects and CPython are trusted',
                       'alphabet: <=3 live assets, <=3 association instances, <=2 attackers; '
                       'exception types are not compared; automatically chosen ids/names are '
                       'observed and only constrained to be unique']
    plans = PLANS[tier]
    for i, (name, depth, K) in enumerate(plans):
        reps = engine_hist.explore(make_system, name, depth, K, res, seed, label=f'[{name},D{depth},K{K}]')
        for k in sorted(reps)[:2]:
            res.sample({'language': name, 'history': reps[k][0]})
        res.count('distinct_nontrivial', len(reps) - 1)
    res.count('traces_validated_against_impl', res.counters.get('transitions', 0))
    res.count('evaluations', res.counters.get('transitions', 0))
    res.exhaustive = True
    res.bounds['plans'] = [list(p) for p in plans]
    return res.finish()


def replay(path):
    j = json.load(open(path))
    case = j['case']
    system = make_system(eval(case['system']))
    hist = [tuple(_t(x) for x in op) for op in case['history']]
    if case.get('op') is None:
        print('state-leak finding: it only shows when other executions ran before in the same process; re-run the tier')
        return 1
    op = tuple(_t(x) for x in case['op'])
    ctx = engine_hist.replay(system, hist)
    try:
        system.step(ctx, op, True)
        system.invariant(ctx)
    except common.Violation as v:
        print('reproduced:', v)
        print(f'VIOLATION property={PROP} replay={path}')
        return 1
    print('not reproduced')
    return 0


def _t(x):
    return tuple(_t(y) for y in x) if isinstance(x, list) else x
