"""C10 - saving and loading an attack graph preserves it (states from engine H x formats x model)."""
import copy
import json

from .. import common, engine_hist, refgraph, sandbox
from . import c09

PROP = 'C10'
PLANS = {'quick': [('GOPS', 'all', 3, 1), ('GOPS2', 'all', 2, 1), ('GOPS', 'all', 2, 1, 'auto'), ('GOPS', 'all', 2, 0, 'dup'), ('GOPS', 'all', 2, 1, 'plain', 'busy')],
         'thorough': [('GOPS', 'all', 3, 2), ('GOPS2', 'all', 3, 1), ('GOPS', 'all', 3, 1, 'auto'), ('GOPS', 'all', 2, 1, 'dup'), ('GOPS', 'all', 2, 1, 'plain', 'busy'), ('GOPS', 'all', 2, 1, 'plain', 'reloaded')]}
VARIANTS = ['as_is', 'decorated']


def decorate(g):
    """node extras / tags / mitre on graphs that would otherwise never carry them"""
    for k, n in enumerate(g.nodes):
        if k % 3 == 0:
            n.extras = {'k': [1, {'x': 'y'}], 'pos': k}
        if k % 4 == 1 and not n.tags:
            n.tags = ['t1', 't2']
        if k % 5 == 2 and n.mitre_info is None:
            n.mitre_info = 'T9999'
        if k % 7 == 3:
            n.is_viable = False
        if k % 7 == 4:
            n.is_necessary = False


def typed(obs, with_model, src_has_assets):
    """projection compared across save/load: C10's list of attributes, with their Python types"""
    nodes = {}
    for i, n in obs['nodes'].items():
        nodes[i] = {k: n[k] for k in ('name', 'type', 'ttc', 'defense_status', 'existence_status', 'is_viable',
                                      'is_necessary', 'mitre_info', 'extras')}
        nodes[i]['tags'] = n['tags']
        nodes[i]['children'] = sorted(set(n['children']))
        nodes[i]['parents'] = sorted(set(n['parents']))
        nodes[i]['compromised_by'] = n['compromised_by']
        if with_model:
            nodes[i]['asset'] = n['asset']
    return {'nodes': nodes, 'attackers': obs['attackers']}


def check_state(system, hist, stats):
    from maltoolbox.attackgraph import AttackGraph
    viols = []
    case0 = {'system': repr((system.which, system.alpha, system.cfg.get('names', 'plain'), system.cfg.get('start'))), 'history': [list(h) for h in hist]}
    for variant in VARIANTS:
        for fmt in ('json', 'yml'):
            for with_model in (True, False):
                c = engine_hist.replay(system, hist)
                g = c.g
                if variant == 'decorated':
                    decorate(g)
                case = dict(case0, variant=variant, format=fmt, with_model=with_model)

                def V(key, what, **kw):
                    viols.append(common.Violation(key, what, case=case, **kw).to_json())
                before = refgraph.observe(g)
                names = [a['name'] for a in before['attackers'].values()]
                dup_names = len(set(names)) != len(names)
                p = sandbox.tmpfile('.' + fmt)
                try:
                    g.save_to_file(p)
                except Exception as e:  # noqa: BLE001
                    V(f'save_raised:{type(e).__name__}:{fmt}', f'save raised {e}')
                    continue
                if refgraph.observe(g) != before:
                    V('save_changed_graph', 'saving modified the graph')
                try:
                    g2 = AttackGraph.load_from_file(p, c.model if with_model else None)
                except Exception as e:  # noqa: BLE001
                    V(f'load_raised:{type(e).__name__}:{fmt}' + (':dup_attacker_names' if dup_names else ''),
                      f'load raised {e}')
                    continue
                stats['roundtrips'] = stats.get('roundtrips', 0) + 1
                after = refgraph.observe(g2)
                src_assets = any(n['asset'] is not None for n in before['nodes'].values())
                a, b = typed(before, with_model, src_assets), typed(after, with_model, src_assets)
                if dup_names:
                    # KNOWN finding: the file keys attackers by name, so attackers sharing a name
                    # collapse to the last one.  Confine it: if the loaded graph is exactly the
                    # original minus the shadowed attackers, report under the known key and compare
                    # the rest against that collapsed expectation; anything else stays a violation.
                    last = {}
                    for i in before['attacker_order']:
                        last[before['attackers'][i]['name']] = i
                    keep = set(last.values())
                    a2 = copy.deepcopy(a)
                    a2['attackers'] = {i: v for i, v in a['attackers'].items() if i in keep}
                    for n in a2['nodes'].values():
                        n['compromised_by'] = [x for x in n['compromised_by'] if x in keep]
                    if a2 == b:
                        V('attackers_sharing_a_name_collapse', 'attackers sharing a name collapse to one in the saved file',
                          expected=sorted(a['attackers']), observed=sorted(b['attackers']))
                        a = a2
                if a['nodes'].keys() != b['nodes'].keys():
                    V('node_set_differs', 'loaded graph has different node ids', expected=sorted(a['nodes']), observed=sorted(b['nodes']))
                    continue
                for i in a['nodes']:
                    for k in a['nodes'][i]:
                        x, y = a['nodes'][i][k], b['nodes'][i][k]
                        if x != y or type(x) is not type(y):
                            V(f'node_attr_differs:{k}', f'node {i}: {k} differs after load', expected=repr(x), observed=repr(y))
                            break
                if a['attackers'] != b['attackers']:
                    V('attackers_differ', 'attackers differ after load', expected=a['attackers'], observed=b['attackers'])
                if with_model:
                    for n in g2.nodes:
                        want = next((x for x in c.model.assets if str(x.name) == before['nodes'][n.id]['asset']), None) \
                            if n.id in before['nodes'] else None
                        if n.asset is not want:
                            V('asset_binding', f'loaded node {n.id} is not bound to the model asset of the same name')
                            break
                try:
                    refgraph.invariants(g2)
                except common.Violation as v:
                    V('loaded_invariant:' + v.key, v.what)
                # the same graph object saved again after in-place edits (labels, extras): the second file must
                # show the edits (nothing remembered from the first save)
                if fmt == 'json' and with_model:
                    try:
                        for k, n in enumerate(g.nodes):
                            if k % 2 == 1:
                                n.extras = dict(n.extras, resaved=k)
                                n.is_necessary = not n.is_necessary
                            if k % 3 == 2 and n.type == 'defense':
                                n.defense_status = 0.75
                        edited = typed(refgraph.observe(g), with_model, src_assets)
                        p3 = sandbox.tmpfile('.' + fmt)
                        g.save_to_file(p3)
                        g4 = AttackGraph.load_from_file(p3, c.model)
                        if typed(refgraph.observe(g4), with_model, src_assets)['nodes'] != edited['nodes']:
                            V('second_save_of_edited_graph_is_stale', 'a graph saved, edited in place and saved again loads without the edits')
                    except Exception as e:  # noqa: BLE001
                        V(f'second_save_raised:{type(e).__name__}', f'{e}')
                    continue
                # second generation: save(load(save(g))) has the same content
                try:
                    p2 = sandbox.tmpfile('.' + fmt)
                    g2.save_to_file(p2)
                    g3 = AttackGraph.load_from_file(p2, c.model if with_model else None)
                    if typed(refgraph.observe(g3), with_model, src_assets) != b:
                        V('second_generation_differs', 'save(load(save(g))) differs from load(save(g))')
                except Exception as e:  # noqa: BLE001
                    V(f'second_generation_raised:{type(e).__name__}', f'{e}')
    return viols


@common.job
def _job(job):
    arg, hists = job
    system = engine_hist._system(c09.make_system, arg)
    stats, viols = {}, []
    for h in hists:
        viols += check_state(system, h, stats)
    return stats, viols[:40]


def run(tier, seed):
    res = common.Result(PROP, tier, seed, 'model_checking')
    res.rule = ('every distinct attack-graph state reached by the C09 search (generated, regenerated, edited, attackers '
                'attached / added / compromised, analysed, pruned, copied, already loaded once) x {as is, decorated with '
                'extras/tags/mitre/false flags} x {json, yml} x {model given, absent}: typed equality of nodes, edge '
                'sets, attackers; second-generation stability')
    res.assumptions = ['edges compared as sets (the file format keys children by id); attributes and full names of '
                       'asset-less loads are not compared; defense_status compared by value']
    scratch = common.Result(PROP, tier, seed, 'model_checking')
    total = 0
    for plan in PLANS[tier]:
        lang, alpha, depth, K = plan[:4]
        sysarg = (lang, alpha) + tuple(plan[4:])
        reps = engine_hist.explore(c09.make_system, sysarg, depth, K, scratch, seed, shard=16,
                                   label=f'[{",".join(map(str, sysarg))},D{depth},K{K}]')
        hists = common.rotate([reps[k][0] for k in sorted(reps)], seed)
        total += len(hists)
        jobs = [(sysarg, hists[i:i + 8]) for i in range(0, len(hists), 8)]
        for stats, viols in common.pmap(_job, jobs):
            res.merge_counts(stats)
            res.add_violations(viols)
        res.sample({'language': lang, 'history': hists[-1], 'formats': ['json', 'yml'], 'model': [True, False]})
    res.bounds = dict(scratch.bounds)
    c = res.counters
    c['states'] = total
    c['transitions'] = c.get('roundtrips', 0)
    c['traces_validated_against_impl'] = c.get('roundtrips', 0)
    c['evaluations'] = c.get('roundtrips', 0)
    c['distinct_nontrivial'] = total
    return res.finish()


def replay(path):
    j = json.load(open(path))
    c = j['case']
    system = c09.make_system(eval(c['system']))
    hist = tuple(tuple(c09._t(x) for x in op) for op in c['history'])
    vs = check_state(system, hist, {})
    for v in vs:
        print('reproduced:', v['key'], v['what'])
    if vs:
        print(f'VIOLATION property={PROP} replay={path}')
        return 1
    print('not reproduced')
    return 0
