"""C08 - viability/necessity labels are the greatest fixed point, in any node order (engine E x orders)."""
import itertools
import json

from .. import common
from ..refs import gfp

PROP = 'C08'

KINDS16 = [(t, ttc, None) for t in ('or', 'and') for ttc in (None, 'Enabled', 'Exponential')] + \
          [('defense', ttc, st) for st in (0, 0.5, 1) for ttc in (None, 'Bernoulli')] + \
          [('exist', None, True), ('exist', None, False), ('notExist', None, True), ('notExist', None, False)]
KINDS5 = [('or', None, None), ('and', None, None), ('or', 'Exponential', None), ('defense', None, 0), ('defense', None, 1)]
KINDS7 = [('or', None, None), ('and', None, None), ('or', 'Exponential', None), ('and', 'Exponential', None),
          ('defense', None, 0), ('defense', None, 0.5), ('defense', None, 1)]


KINDS7C = [(t, 'Composite' if ttc == 'Exponential' else ttc, st) for t, ttc, st in KINDS7]
KINDS_COMP = [('or', 'Composite', None), ('and', 'Composite', None), ('or', 'CompositeRight', None)]


def ttc_dict(name):
    if name is None:
        return None
    if name in ('Composite', 'CompositeRight'):
        # an arithmetic expression over distributions, as the MAL compiler emits it for
        # [Exponential(0.1) + Exponential(0.2)] / [2 * Exponential(0.1)]: no top-level 'name'
        if name == 'Composite':
            return {'type': 'addition', 'lhs': ttc_dict('Exponential'), 'rhs': ttc_dict('Exponential')}
        return {'type': 'multiplication', 'lhs': {'type': 'number', 'value': 2.0}, 'rhs': ttc_dict('Exponential')}
    args = {'Exponential': [0.1], 'Bernoulli': [0.5]}.get(name, [])
    return {'type': 'function', 'name': name, 'arguments': args}


def make_nodes(kinds):
    from maltoolbox.attackgraph import AttackGraphNode
    nodes = []
    for i, (typ, ttc, st) in enumerate(kinds):
        n = AttackGraphNode(type=typ, name=f'n{i}', ttc=ttc_dict(ttc))
        if typ == 'defense':
            n.defense_status = float(st)
        if typ in ('exist', 'notExist'):
            n.existence_status = bool(st)
        nodes.append(n)
    return nodes


def ttc_kind(ttc):
    """TTC dict of a real node -> the name the reference uses ('Composite' for an arithmetic expression
    that contains a distribution)"""
    if not isinstance(ttc, dict):
        return None
    if 'name' in ttc:
        return ttc['name']

    def has_dist(e):
        if not isinstance(e, dict):
            return False
        if 'name' in e:
            return e['name'] not in ('Enabled', 'Disabled')
        return has_dist(e.get('lhs')) or has_dist(e.get('rhs'))
    return 'Composite' if has_dist(ttc) else None


def _flip(nodes, kinds, back):
    for nd, (typ, _ttc, st) in zip(nodes, kinds):
        if typ == 'defense':
            nd.defense_status = float(st) if back else (1.0 - float(st))
        if typ in ('exist', 'notExist'):
            nd.existence_status = bool(st) if back else (not st)


def analyse_all_orders(kinds, edge_sets, orders, stats, reverse_adj=False, pre='fresh'):
    """for each edge set: run the real analysis under every storage order of graph.nodes.
    pre: labels the 'or'/'and' steps carry when the analysis starts - 'fresh' (the default True/True),
    'false' (all False, e.g. loaded from a file) or 'flipped' (left behind by an analysis of the same graph
    made while every defense / existence status had the opposite value)."""
    from maltoolbox.attackgraph import AttackGraph
    from maltoolbox.attackgraph.analyzers.apriori import calculate_viability_and_necessity
    n = len(kinds)
    nodes = make_nodes(kinds)
    g = AttackGraph()
    for nd in nodes:
        g.add_node(nd)
    viols = []
    for edges in edge_sets:
        parents = [[] for _ in range(n)]
        for nd in nodes:
            nd.children, nd.parents = [], []
        for (a, b) in (reversed(edges) if reverse_adj else edges):
            nodes[a].children.append(nodes[b])
            nodes[b].parents.append(nodes[a])
            parents[b].append(a)
        want = gfp.gfp(kinds, parents)
        first = None
        for order in orders:
            for nd in nodes:
                nd.is_viable, nd.is_necessary = True, True
            g.nodes = [nodes[i] for i in order]
            try:
                if pre == 'false':
                    for nd in nodes:
                        if nd.type in ('or', 'and'):
                            nd.is_viable, nd.is_necessary = False, False
                elif pre == 'flipped':
                    _flip(nodes, kinds, False)
                    try:
                        calculate_viability_and_necessity(g)
                    finally:
                        _flip(nodes, kinds, True)
                calculate_viability_and_necessity(g)
            except RecursionError:
                viols.append(common.Violation('analysis_recursion', 'analysis does not terminate',
                                              case={'kinds': kinds, 'edges': edges, 'order': order}))
                break
            got = ([nd.is_viable for nd in nodes], [nd.is_necessary for nd in nodes])
            stats['analyses'] = stats.get('analyses', 0) + 1
            if first is None:
                first = (order, got)
            elif got != first[1]:
                viols.append(common.Violation(
                    'order_dependent:' + _aspect(first[1], got, kinds),
                    'labelling depends on the storage order of graph.nodes',
                    case={'kinds': kinds, 'edges': edges, 'order_a': first[0], 'order_b': order},
                    expected=first[1], observed=got))
                break
            if (list(got[0]), list(got[1])) != (want[0], want[1]):
                viols.append(common.Violation(
                    ('not_greatest_fixed_point:' if pre == 'fresh' else f'depends_on_earlier_labels:{pre}:') +
                    _aspect(want, got, kinds) + _shape(edges) + _comp(kinds),
                    'labels differ from the greatest fixed point of the equations' +
                    ('' if pre == 'fresh' else f' when the steps carried {pre} labels before the analysis'),
                    case={'kinds': kinds, 'edges': edges, 'order': order, 'pre': pre},
                    expected=want, observed=got))
                break
        stats['graphs'] = stats.get('graphs', 0) + 1
        if any(not v for v in want[0]) or any(not v for v in want[1]):
            stats['nontrivial'] = stats.get('nontrivial', 0) + 1
    return viols


def _aspect(want, got, kinds):
    for i in range(len(kinds)):
        if want[0][i] != got[0][i]:
            return f'viability_of_{kinds[i][0]}'
        if want[1][i] != got[1][i]:
            return f'necessity_of_{kinds[i][0]}'
    return 'none'


def _comp(kinds):
    return ':composite_ttc' if any(str(k[1]).startswith('Composite') for k in kinds) else ''


def _shape(edges):
    return ':selfloop' if any(a == b for a, b in edges) else ''


def all_edge_sets(n, lo=0, hi=None):
    pairs = [(a, b) for a in range(n) for b in range(n)]
    hi = (1 << len(pairs)) if hi is None else hi
    for mask in range(lo, hi):
        yield [p for k, p in enumerate(pairs) if mask >> k & 1]


def noself_edge_sets(n):
    pairs = [(a, b) for a in range(n) for b in range(n) if a != b]
    for mask in range(1 << len(pairs)):
        yield [p for k, p in enumerate(pairs) if mask >> k & 1]


@common.job
def _job(job):
    kinds, n, lo, hi, rev = job[:5]
    pre = job[5] if len(job) > 5 else 'fresh'
    stats = {}
    orders = list(itertools.permutations(range(n)))
    es = noself_edge_sets(n) if lo == 'noself' else all_edge_sets(n, lo, hi)
    vs = analyse_all_orders(kinds, es, orders, stats, rev, pre)
    return stats, [v.to_json() for v in vs[:20]]


def _validate_reference(res):
    """ref_gfp against brute force over all labellings, every graph with <= 3 nodes over KINDS7
    plus the existence kinds; both must agree and a solution must exist"""
    ks = KINDS7 + [('exist', None, False), ('notExist', None, True)]
    cnt = 0
    for n in (1, 2):
        for kinds in itertools.product(ks, repeat=n):
            for edges in all_edge_sets(n):
                parents = [[a for a, b in edges if b == i] for i in range(n)]
                b = gfp.brute(list(kinds), parents)
                g = gfp.gfp(list(kinds), parents)
                if b is None or (b[0], b[1]) != (g[0], g[1]):
                    raise RuntimeError(f'reference self-check failed: {kinds} {edges} brute={b} gfp={g}')
                cnt += 1
    res.count('reference_selfcheck_graphs', cnt)


def _job_selfcheck3(job):
    kinds, lo, hi = job
    cnt = 0
    for edges in all_edge_sets(3, lo, hi):
        parents = [[a for a, b in edges if b == i] for i in range(3)]
        b = gfp.brute(list(kinds), parents)
        g = gfp.gfp(list(kinds), parents)
        if b is None or (b[0], b[1]) != (g[0], g[1]):
            raise RuntimeError(f'reference self-check failed: {kinds} {edges} brute={b} gfp={g}')
        cnt += 1
    return cnt


# ---- part C: long chains and wide fans (the worklist must not depend on the interpreter's recursion limit)

def deep_cases():
    out = []
    for n in (1500, 6000):
        for root in (('defense', None, 1), ('defense', None, 0), ('exist', None, False), ('notExist', None, False)):
            for step in ('or', 'and'):
                out.append(('chain', n, root, step))
        out.append(('ladder', n, ('defense', None, 1), 'and'))
    return out


@common.job
def _job_deep(job):
    from maltoolbox.attackgraph import AttackGraph
    from maltoolbox.attackgraph.analyzers.apriori import calculate_viability_and_necessity
    shape, n, root, step = job
    kinds = [root] + [(step, None, None)] * n
    parents = [[]] + [[i] for i in range(n)]
    if shape == 'ladder':
        # every step also has the root as a parent
        parents = [[]] + [[0]] + [[i, 0] for i in range(1, n)]
    nodes = make_nodes(kinds)
    g = AttackGraph()
    for nd in nodes:
        g.add_node(nd)
    for i, ps in enumerate(parents):
        for p in ps:
            nodes[p].children.append(nodes[i])
            nodes[i].parents.append(nodes[p])
    want = gfp.gfp(kinds, parents)
    viols = []
    case = {'shape': shape, 'length': n, 'root': list(root), 'step': step, 'deep': True}
    for rev in (False, True):
        for nd in nodes:
            nd.is_viable, nd.is_necessary = True, True
        g.nodes = list(reversed(nodes)) if rev else list(nodes)
        try:
            calculate_viability_and_necessity(g)
        except RecursionError:
            viols.append(common.Violation('long_chain:recursion_error', f'the analysis raises RecursionError on a {shape} of {n} steps',
                                          case=case).to_json())
            break
        got = ([nd.is_viable for nd in nodes], [nd.is_necessary for nd in nodes])
        if (got[0], got[1]) != (want[0], want[1]):
            k = next(i for i in range(n + 1) if (got[0][i], got[1][i]) != (want[0][i], want[1][i]))
            viols.append(common.Violation('long_chain:not_greatest_fixed_point', f'labels of a {shape} of {n} steps are wrong from step {k} on',
                                          case=case).to_json())
            break
    return {'analyses': 2, 'graphs': 1, 'deep_graphs': 1, 'nontrivial': 1}, viols


# ---- part B: graphs generated from languages and models, every asset insertion order

def _partb_langs():
    from .. import families
    from ..refgraph import gops_lang, gops2_lang
    return {'GOPS': (gops_lang(), ['Nn']), 'GOPS2': (gops2_lang(), ['Pp', 'Qq']),
            'OPS': (families.ops_lang(), ['Host', 'Data'])}


_PB = {}


def _partb_models(name, tier):
    from .. import modelgen
    from ..refs import sem
    if name not in _PB:
        sp, types = _partb_langs()[name]
        L = sem.Lang(sp)
        n, l, two = (3, 2, name != 'OPS') if tier == 'quick' else (3, 3, True)
        _PB[name] = list(modelgen.enum_models(L, sp, types, n, l, two))
    return _PB[name]


@common.job
def _job_generated(job):
    name, tier, lo, hi = job
    from .. import langs
    from ..refs import inherit
    from maltoolbox.attackgraph import AttackGraph
    from maltoolbox.attackgraph.analyzers.apriori import calculate_viability_and_necessity
    from maltoolbox.model import Model
    sp, _types = _partb_langs()[name]
    fx = langs.fixture(sp)
    defs = {t['name']: [n for n, r in inherit.resolve(sp, t['name']).items() if r['decl']['type'] == 'defense'] for t in sp['assets']}
    stats, viols = {}, []
    for pm in _partb_models(name, tier)[lo:hi]:
        for variant in ('default', 'all_off', 'all_on'):
            first = None
            for order in itertools.permutations(range(len(pm.assets))):
                m = Model('m', fx.factory)
                objs = {}
                for i in order:
                    nm, t = pm.assets[i]
                    kw = {} if variant == 'default' else {d: (0.0 if variant == 'all_off' else 1.0) for d in defs[t]}
                    objs[nm] = getattr(fx.ns, t)(name=nm, **kw)
                    m.add_asset(objs[nm])
                for cls, lf, Ln, rf, Rn in pm.links:
                    m.add_association(getattr(fx.ns, cls)(**{lf: [objs[x] for x in Ln], rf: [objs[x] for x in Rn]}))
                g = AttackGraph(fx.lang_graph, m)
                calculate_viability_and_necessity(g)
                stats['generated_analyses'] = stats.get('generated_analyses', 0) + 1
                labels = {n.full_name: (n.is_viable, n.is_necessary) for n in g.nodes}
                case = {'language': name, 'model': pm.describe(), 'defenses': variant, 'asset_order': list(order)}
                if first is None:
                    first = labels
                    idx = {id(n): k for k, n in enumerate(g.nodes)}
                    kinds = [(n.type, ttc_kind(n.ttc),
                              (float(n.defense_status) if n.type == 'defense' else n.existence_status)) for n in g.nodes]
                    parents = [[idx[id(p)] for p in n.parents] for n in g.nodes]
                    want = gfp.gfp(kinds, parents)
                    got = ([n.is_viable for n in g.nodes], [n.is_necessary for n in g.nodes])
                    if (list(got[0]), list(got[1])) != (want[0], want[1]):
                        bad = next(n.full_name for k, n in enumerate(g.nodes) if (got[0][k], got[1][k]) != (want[0][k], want[1][k]))
                        viols.append(common.Violation('generated_graph:not_greatest_fixed_point',
                                                      f'labels of the generated graph differ from the greatest fixed point (first: {bad})',
                                                      case=case).to_json())
                        break
                    if any(not v for v in want[0]) or any(not v for v in want[1]):
                        stats['nontrivial'] = stats.get('nontrivial', 0) + 1
                elif labels != first:
                    bad = sorted(k for k in labels if labels[k] != first.get(k))[:3]
                    viols.append(common.Violation('generated_graph:depends_on_asset_order',
                                                  f'labels depend on the order in which assets were added ({bad})', case=case).to_json())
                    break
            stats['graphs'] = stats.get('graphs', 0) + 1
        if len(viols) > 10:
            break
    return stats, viols


def run(tier, seed):
    res = common.Result(PROP, tier, seed, 'model_checking')
    res.rule = ('every synthetic attack graph up to the node bound (all kind assignments as sorted multisets, '
                'every subset of the n^2 directed edges incl. self-loops and cycles) analysed by the real code under '
                'EVERY storage order of graph.nodes (the schedule of the worklist algorithm); a state = one '
                '(graph, order) analysis; non-trivial = graphs whose greatest fixed point labels some node false. Part B: attack graphs generated from '
                'three languages x every model up to the bound x {default, all-off, all-on defenses} x EVERY asset insertion order')
    res.assumptions = ['a TTC counts as a probability distribution iff it is a named function other than Enabled/Disabled '
                       'or an arithmetic expression with such a function as an operand',
                       'kind multisets are enumerated sorted: all n! storage orders and all edge sets are explored, '
                       'which covers every relabelling (edge insertion order is additionally reversed in a second pass)']
    _validate_reference(res)
    jobs = []
    # n <= 2: all 16 kinds, ordered tuples; n = 3: sorted multisets over all 16 kinds
    for n in (1, 2):
        for kinds in itertools.product(KINDS16, repeat=n):
            jobs.append((list(kinds), n, 0, None, False))
    for kinds in itertools.combinations_with_replacement(KINDS16, 3):
        jobs.append((list(kinds), 3, 0, None, False))
    for kinds in itertools.combinations_with_replacement(KINDS7, 3):
        jobs.append((list(kinds), 3, 0, None, True))
    # arithmetic TTC expressions over distributions (no top-level name)
    for n in (1, 2):
        for kinds in itertools.product(KINDS16 + KINDS_COMP, repeat=n):
            if any(k in KINDS_COMP for k in kinds):
                jobs.append((list(kinds), n, 0, None, False))
    for kinds in itertools.combinations_with_replacement(KINDS7C, 3):
        if any(k[1] == 'Composite' for k in kinds):
            jobs.append((list(kinds), 3, 0, None, False))
    # the analysis is run on steps that already carry labels: all False, or those of an analysis made
    # while every defense / existence status had the opposite value
    for pre in ('false', 'flipped'):
        for n in (1, 2):
            for kinds in itertools.product(KINDS16, repeat=n):
                jobs.append((list(kinds), n, 0, None, False, pre))
        for kinds in itertools.combinations_with_replacement(KINDS7, 3):
            jobs.append((list(kinds), 3, 0, None, False, pre))
    # n = 4, five kinds, every edge set without self-loops (mask over the 12 off-diagonal pairs)
    for kinds in itertools.combinations_with_replacement(KINDS5, 4):
        jobs.append((list(kinds), 4, 'noself', None, False))
    if tier == 'thorough':
        step = 1 << 12
        for kinds in itertools.combinations_with_replacement(KINDS7, 4):
            for lo in range(0, 1 << 16, step):
                jobs.append((list(kinds), 4, lo, lo + step, False))
    jobs = common.rotate(jobs, seed)
    for stats, viols in common.pmap(_job, jobs, chunksize=4):
        res.merge_counts(stats)
        res.add_violations(viols)
    for stats, viols in common.pmap(_job_deep, common.rotate(deep_cases(), seed)):
        res.merge_counts(stats)
        res.add_violations(viols)
    res.bounds['deep'] = 'chains / ladders of 1500 and 6000 or- / and-steps below each kind of root, both storage orders'
    gjobs = []
    for name in _partb_langs():
        n = len(_partb_models(name, tier))
        per = max(1, n // 32 + 1)
        gjobs += [(name, tier, lo, lo + per) for lo in range(0, n, per)]
        res.bounds[f'generated[{name}]'] = {'models': n, 'defense_variants': 3, 'asset_orders': 'all N!'}
    for stats, viols in common.pmap(_job_generated, common.rotate(gjobs, seed)):
        res.merge_counts(stats)
        res.add_violations(viols)
    if tier == 'thorough':
        sc = [(list(k), 0, 512) for k in itertools.combinations_with_replacement(KINDS7, 3)]
        res.count('reference_selfcheck_graphs', sum(common.pmap(_job_selfcheck3, sc, chunksize=4)))
    res.bounds.update({'n<=3': 'all 16 kinds, all edge sets, all orders', 'n=4': '5 kinds, all loop-free edge sets, all 24 orders' + (' + 7 kinds, all 2^16 edge sets' if tier == 'thorough' else ''),
                       'edge_sets': 'all 2^(n*n)', 'orders': 'all n!'})
    res.sample({'kinds': jobs[-1][0], 'edges': [[0, 1], [1, 1], [1, 2]], 'orders': 'all permutations'})
    c = res.counters
    tot = c.get('analyses', 0) + c.get('generated_analyses', 0)
    c['states'] = tot
    c['transitions'] = tot
    c['traces_validated_against_impl'] = tot
    c['evaluations'] = tot
    c['distinct_nontrivial'] = c.get('nontrivial', 0)
    return res.finish()


def replay(path):
    j = json.load(open(path))
    c = j['case']
    if c.get('deep'):
        import sys
        return common.rerun(PROP, path, sys.modules[__name__])
    kinds = [tuple(k) for k in c['kinds']]
    edges = [tuple(e) for e in c['edges']]
    orders = list(itertools.permutations(range(len(kinds))))
    vs = analyse_all_orders(kinds, [edges], orders, {}, pre=c.get('pre', 'fresh'))
    for v in vs:
        print('reproduced:', v.key, v.what, v.expected, v.observed)
    if vs:
        print(f'VIOLATION property={PROP} replay={path}')
        return 1
    print('not reproduced')
    return 0
