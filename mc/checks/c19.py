"""C19 - neo4j export is isomorphic to what is exported, and import inverts it (environment stand-in)."""
import itertools
import json

from .. import common, engine_hist, families, langs, refgraph
from . import c07, c09

PROP = 'C19'


class StubTx:
    def __init__(self, g):
        self.g = g

    def create(self, subgraph):
        # what py2neo checks when it builds the Cypher for a subgraph: labels and relationship types are strings
        for n in subgraph.nodes:
            for label in n.labels:
                if not isinstance(label, str):
                    raise TypeError(type(label).__name__)
        self.g.created.append(subgraph)


class StubGraph:
    """Recording stand-in for py2neo.Graph.  Answers exactly the two Cypher strings get_model sends,
    with their Cypher meaning, over what was created.  The order of the answer rows is an environment
    answer owned by the harness (``row_order``)."""
    instances = []
    preload = None
    row_order = None

    def __init__(self, *a, **kw):
        self.created = []
        self.deleted = False
        self.committed = 0
        self.queries = []
        StubGraph.instances.append(self)
        self.store = StubGraph.preload

    def delete_all(self):
        self.deleted = True

    def begin(self):
        return StubTx(self)

    def commit(self, tx):
        self.committed += 1

    def run(self, query):
        self.queries.append(query)
        nodes, rels = self.store
        import re
        q = ' '.join(query.split())
        m1 = re.fullmatch(r'MATCH \(a\) WHERE a\.(\w+) IS NOT NULL RETURN DISTINCT a', q)
        m2 = re.fullmatch(r'MATCH \(a\)-\[r1\]->\(b\),\(a\)<-\[r2\]-\(b\) WHERE a\.(\w+) IS NOT NULL RETURN DISTINCT a, r1, r2, b', q)
        if m1:
            rows = [{'a': n} for n in nodes if dict(n).get(m1.group(1)) is not None]
        elif m2:
            rows = []
            for r1 in rels:
                for r2 in rels:
                    if r1 is r2:
                        continue
                    if r1.start_node is r2.end_node and r1.end_node is r2.start_node and dict(r1.start_node).get(m2.group(1)) is not None:
                        rows.append({'a': r1.start_node, 'r1': r1, 'r2': r2, 'b': r1.end_node})
        else:
            raise AssertionError('stand-in does not know this query: ' + query)
        if StubGraph.row_order is not None:
            rows = StubGraph.row_order(rows)

        class R:
            def data(self_inner):
                return rows
        return R()


def install():
    from maltoolbox.ingestors import neo4j as ing
    ing.Graph = StubGraph
    return ing


def sorted_store(subgraph):
    nodes = sorted(subgraph.nodes, key=lambda n: (str(dict(n).get('asset_id')), str(dict(n).get('full_name'))))
    rels = sorted(subgraph.relationships, key=lambda r: (str(dict(r.start_node)), type(r).__name__, str(dict(r.end_node))))
    return nodes, rels


def orders(n):
    if n <= 4:
        return list(itertools.permutations(range(n)))
    base = list(range(n))
    out = [tuple(base[k:] + base[:k]) for k in range(n)] + [tuple(reversed(base))]
    return out


def link_set(m):
    s = set()
    for x in m.associations:
        cls = type(x).__name__
        lf, rf = list(x._properties.keys())
        for a in getattr(x, lf):
            for b in getattr(x, rf):
                s.add((cls, str(lf), int(a.id), str(rf), int(b.id)))
    return s


def check_model(fx, m, case, stats, all_orders=True):
    ing = install()
    viols = []

    def V(key, what, **kw):
        viols.append(common.Violation(key, what, case=case, **kw).to_json())
    StubGraph.instances.clear()
    StubGraph.preload = ([], [])
    StubGraph.row_order = None
    before = json.dumps(m._to_dict(), default=repr)
    try:
        ing.ingest_model(m, 'bolt://x', 'u', 'p', 'db', delete=True)
    except Exception as e:  # noqa: BLE001
        V(f'ingest_model_raised:{type(e).__name__}', f'ingest_model raised {e}')
        return viols
    stats['exports'] = stats.get('exports', 0) + 1
    if json.dumps(m._to_dict(), default=repr) != before:
        V('ingest_changed_model', 'ingest_model modified the model')
    g = StubGraph.instances[-1]
    if len(g.created) != 1 or g.committed != 1:
        V('ingest_transaction', 'expected exactly one created subgraph and one commit', observed=[len(g.created), g.committed])
        return viols
    sub = g.created[0]
    got_nodes = sorted((dict(n).get('asset_id'), dict(n).get('name'), dict(n).get('type')) for n in sub.nodes)
    want_nodes = sorted((str(a.id), str(a.name), str(a.type)) for a in m.assets)
    if got_nodes != want_nodes:
        V('exported_nodes', 'database nodes are not one per asset with (asset_id, name, type)', expected=want_nodes, observed=got_nodes)
    want_rels = set()
    for (cls, lf, a, rf, b) in link_set(m):
        want_rels.add((str(a), lf, str(b)))
        want_rels.add((str(b), rf, str(a)))
    got_rels = {(dict(r.start_node).get('asset_id'), type(r).__name__, dict(r.end_node).get('asset_id')) for r in sub.relationships}
    if got_rels != want_rels:
        V('exported_relationships', 'relationships are not one per direction of every linked pair labelled with the field name',
          expected=sorted(want_rels - got_rels), observed=sorted(got_rels - want_rels))
        return viols
    # import against what was exported, under every order of the answer rows
    StubGraph.preload = sorted_store(sub)
    want_assets = sorted((int(a.id), str(a.name), str(a.type)) for a in m.assets)
    want_links = link_set(m)
    nrows = sum(1 for r1 in StubGraph.preload[1] for r2 in StubGraph.preload[1]
                if r1 is not r2 and r1.start_node is r2.end_node and r1.end_node is r2.start_node)
    for perm in (orders(nrows) if all_orders else [tuple(range(nrows))]):
        StubGraph.row_order = lambda rows, perm=perm: [rows[i] for i in perm] if len(rows) == len(perm) else rows
        stats['imports'] = stats.get('imports', 0) + 1
        try:
            m2 = ing.get_model('bolt://x', 'u', 'p', 'db', fx.lang_graph, fx.factory)
        except Exception as e:  # noqa: BLE001
            V(f'get_model_raised:{type(e).__name__}', f'get_model raised {str(e)[:200]}', observed={'row_order': list(perm)})
            break
        if m2 is None:
            V('get_model_returned_none' + _shape(m), 'get_model gave up (returned None) on what ingest_model exported',
              observed={'row_order': list(perm)})
            break
        got_assets = sorted((int(a.id), str(a.name), str(a.type)) for a in m2.assets)
        if got_assets != want_assets:
            V('imported_assets', 'imported assets differ', expected=want_assets, observed=got_assets)
            break
        if link_set(m2) != want_links:
            V('imported_links' + _shape(m), 'imported links differ from the exported model',
              expected=sorted(want_links - link_set(m2)), observed={'extra': sorted(link_set(m2) - want_links), 'row_order': list(perm)})
            break
    StubGraph.row_order = None
    # the model and its attack graph in ONE database (what `maltoolbox attack-graph generate --neo4j` does):
    # reading the model back must not be disturbed by the attack step nodes and edges
    if not viols and fx.lang_graph is not None and m.assets:
        try:
            from maltoolbox.attackgraph import AttackGraph
            saved = [list(getattr(a, 'attack_step_nodes', [])) for a in m.assets]
            ag = AttackGraph(fx.lang_graph, m)
            StubGraph.instances.clear()
            ing.ingest_attack_graph(ag, 'bolt://x', 'u', 'p', 'db', delete=False)
            gsub = StubGraph.instances[-1].created[0]
            for a, nodes in zip(m.assets, saved):
                a.attack_step_nodes = nodes
        except Exception:  # noqa: BLE001  (graph generation / export are C01 / check_graph's business)
            gsub = None
        if gsub is not None:
            mn, mr = sorted_store(sub)
            gn, gr = sorted_store(gsub)
            StubGraph.preload = (mn + gn, mr + gr)
            stats['imports'] = stats.get('imports', 0) + 1
            try:
                m3 = ing.get_model('bolt://x', 'u', 'p', 'db', fx.lang_graph, fx.factory)
                got_assets = sorted((int(a.id), str(a.name), str(a.type)) for a in m3.assets) if m3 is not None else None
                if got_assets != want_assets or link_set(m3) != want_links:
                    V('shared_database:imported_model_differs', 'with the attack graph in the same database the model read back differs',
                      expected=want_assets, observed=got_assets)
            except Exception as e:  # noqa: BLE001
                V(f'shared_database:get_model_raised:{type(e).__name__}',
                  f'with the attack graph ingested into the same database get_model raised {str(e)[:200]}')
    return viols


def _shape(m):
    pairs = {}
    for (cls, lf, a, rf, b) in link_set(m):
        pairs.setdefault(frozenset((a, b)), []).append((cls, a, b))
    tags = []
    if any(len({c for c, _a, _b in v}) > 1 for v in pairs.values()):
        tags.append('two_association_types_between_a_pair')
    if any(len(v) > 1 and len({c for c, _a, _b in v}) == 1 for v in pairs.values()):
        tags.append('same_type_both_directions')
    return (':' + '+'.join(tags)) if tags else ''


def check_graph(g, case, stats):
    ing = install()
    viols = []

    def V(key, what, **kw):
        viols.append(common.Violation(key, what, case=case, **kw).to_json())
    StubGraph.instances.clear()
    before = refgraph.observe(g)
    try:
        ing.ingest_attack_graph(g, 'bolt://x', 'u', 'p', 'db', delete=False)
    except Exception as e:  # noqa: BLE001
        V(f'ingest_attack_graph_raised:{type(e).__name__}', f'{e}')
        return viols
    stats['exports'] = stats.get('exports', 0) + 1
    if refgraph.observe(g) != before:
        V('ingest_changed_graph', 'ingest_attack_graph modified the graph')
    sg = StubGraph.instances[-1]
    if len(sg.created) != 1 or sg.deleted:
        V('ingest_transaction', 'expected one created subgraph and no delete')
        return viols
    sub = sg.created[0]
    want = sorted((n.full_name, n.name, n.type, str(n.ttc), str(n.is_necessary), str(n.is_viable),
                   str(n.defense_status) if n.defense_status is not None else 'N/A') for n in g.nodes)
    got = sorted((dict(x).get('full_name'), dict(x).get('name'), dict(x).get('type'), dict(x).get('ttc'),
                  dict(x).get('is_necessary'), dict(x).get('is_viable'), str(dict(x).get('defense_status'))) for x in sub.nodes)
    if got != want:
        V('exported_step_nodes', 'database nodes are not one per attack step with its attributes',
          expected=[w for w in want if w not in got][:3], observed=[x for x in got if x not in want][:3])
    wr = {(n.full_name, c.full_name) for n in g.nodes for c in n.children}
    gr = {(dict(r.start_node).get('full_name'), dict(r.end_node).get('full_name')) for r in sub.relationships}
    if wr != gr:
        V('exported_edges', 'relationships are not one per edge', expected=sorted(wr - gr)[:5], observed=sorted(gr - wr)[:5])
    return viols


def extra_models(fx):
    """models with two association types between one pair / same type in both directions / self-links"""
    from maltoolbox.model import Model
    out = []
    for variant in ('two_types', 'both_directions', 'selflink', 'subtype_dupname', 'three'):
        m = Model('x', fx.factory)
        a, b, d = fx.ns.Host(name='a'), fx.ns.Host(name='b'), fx.ns.Data(name='d')
        for o in (a, b, d):
            m.add_asset(o)
        if variant == 'two_types':
            m.add_association(fx.ns.Peer(peers=[a], peersOf=[b]))
            m.add_association(fx.ns.Run(host=[a], apps=[b]))
        elif variant == 'both_directions':
            m.add_association(fx.ns.Peer(peers=[a], peersOf=[b]))
            m.add_association(fx.ns.Peer(peers=[b], peersOf=[a]))
        elif variant == 'selflink':
            m.add_association(fx.ns.Peer(peers=[a], peersOf=[a]))
            m.add_association(fx.ns.Holds(owner=[a], datas=[d]))
        elif variant == 'subtype_dupname':
            m.add_association(fx.ns.Link_Node_Node(nodeL=[a], nodeR=[b]))
            m.add_association(fx.ns.Link_Host_Data(hostL=[b], dataL=[d]))
        else:
            m.add_association(fx.ns.Peer(peers=[a, b], peersOf=[b]))
            m.add_association(fx.ns.Holds(owner=[b], datas=[d]))
            m.add_association(fx.ns.Link_Host_Data(hostL=[a, b], dataL=[d]))
        out.append((variant, m))
    return out


@common.job
def _job(job):
    kind, items = job
    sp = families.ops_lang()
    stats, viols = {}, []
    if kind == 'hist':
        lname, hists = items
        system = engine_hist._system(c07.make_system, (lname,))
        for hist in hists:
            c = engine_hist.replay(system, hist)
            viols += check_model(system.fx, c.model, {'source': 'history', 'language': lname, 'history': [list(h) for h in hist]}, stats)
            stats['models'] = stats.get('models', 0) + 1
    elif kind == 'extra':
        fx = langs.fixture(sp)
        for variant, m in extra_models(fx):
            viols += check_model(fx, m, {'source': 'extra', 'variant': variant}, stats)
            stats['models'] = stats.get('models', 0) + 1
        # languages with re-used field names / two inheritance levels below the declared association ends
        from .. import modelgen
        for k, item in enumerate(c07.extra_plain_models()):
            lname, pm, defs = item[0], item[1], (item[2] if len(item) > 2 else None)
            fx2 = langs.fixture(c07.lang_spec(lname))
            m, _objs = modelgen.build(fx2, pm, defenses=defs)
            viols += check_model(fx2, m, {'source': 'extra', 'variant': f'{lname}#{k}', 'model': pm.describe()}, stats)
            stats['models'] = stats.get('models', 0) + 1
    else:
        arg, hists = items
        system = engine_hist._system(c09.make_system, arg)
        for hist in hists:
            c = engine_hist.replay(system, hist)
            viols += check_graph(c.g, {'source': 'graph', 'system': repr(arg), 'history': [list(h) for h in hist]}, stats)
            stats['graphs'] = stats.get('graphs', 0) + 1
    return stats, viols[:40]


def run(tier, seed):
    res = common.Result(PROP, tier, seed, 'model_checking')
    res.rule = ('py2neo.Graph replaced by a recording stand-in: every distinct model content reached by the bounded history search '
                '(+ models with two association types between one pair, one type in both directions, self-links, same-named '
                'associations between subtypes) is ingested and the recorded Subgraph compared with the model; get_model is then '
                'run against what was exported under EVERY permutation of the answer rows (rotations + reversal above 4 rows); '
                'every attack-graph state of the C09 search is ingested and compared node by node and edge by edge')
    depth, K = (3, 1) if tier == 'quick' else (5, 1)
    scratch = common.Result(PROP, tier, seed, 'model_checking')
    from . import c18
    hists = c18.distinct_histories('OPS', depth, K, scratch, seed)
    jobs = [('hist', ('OPS', hists[i:i + 16])) for i in range(0, len(hists), 16)] + [('extra', None)]
    h2 = c18.distinct_histories('OPS2', depth, 0, scratch, seed)
    jobs += [('hist', ('OPS2', h2[i:i + 16])) for i in range(0, len(h2), 16)]
    gdepth = 2 if tier == 'quick' else 3
    for arg in (('GOPS', 'all'), ('GOPS2', 'all')):
        greps = engine_hist.explore(c09.make_system, arg, gdepth, 1, scratch, seed, shard=16, label=f'[{arg[0]},graphs,D{gdepth}]')
        gh = [greps[k][0] for k in sorted(greps)]
        jobs += [('graph', (arg, gh[i:i + 16])) for i in range(0, len(gh), 16)]
    for stats, viols in common.pmap(_job, jobs):
        res.merge_counts(stats)
        res.add_violations(viols)
    res.bounds = dict(scratch.bounds)
    res.sample({'history': hists[-1] if hists else None, 'extra_variants': ['two_types', 'both_directions', 'selflink', 'subtype_dupname', 'three']})
    c = res.counters
    c['states'] = c.get('models', 0) + c.get('graphs', 0)
    c['transitions'] = c.get('exports', 0) + c.get('imports', 0)
    c['traces_validated_against_impl'] = c['transitions']
    c['evaluations'] = c['transitions']
    c['distinct_nontrivial'] = c['states']
    return res.finish()


def replay(path):
    j = json.load(open(path))
    c = j['case']
    sp = families.ops_lang()
    if c['source'] == 'history':
        system = c07.make_system((c.get('language', 'OPS'),))
        hist = tuple(tuple(c07._t(x) for x in op) for op in c['history'])
        ctx = engine_hist.replay(system, hist)
        vs = check_model(system.fx, ctx.model, c, {})
    elif c['source'] == 'extra':
        fx = langs.fixture(sp)
        vs = []
        for variant, m in extra_models(fx):
            if variant == c['variant']:
                vs = check_model(fx, m, c, {})
        if '#' in c['variant']:
            _stats, vs = _job(('extra', None))
    else:
        system = c09.make_system(eval(c['system']))
        hist = tuple(tuple(c09._t(x) for x in op) for op in c['history'])
        ctx = engine_hist.replay(system, hist)
        vs = check_graph(ctx.g, c, {})
    for v in vs:
        print('reproduced:', v['key'], v['what'])
    if vs:
        print(f'VIOLATION property={PROP} replay={path}')
        return 1
    print('not reproduced')
    return 0
