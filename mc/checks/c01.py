"""C01 - attack-graph edges are exactly the MAL meaning of the step expressions (engine E)."""
import json

from .. import common, families, langs, modelgen
from ..langs import COL, DIF, F, INT, S, SUB, UNI, step
from ..refs import inherit, sem

PROP = 'C01'
CHUNK = 150
TYPES = ['Aa', 'Bb', 'Cc', 'Dd']

# tier -> list of sweeps: (max operators, atoms or None, n_max, l_max, two_member, both link orders)
QUICK_ATOMS = ('down', 'peers', 'rights', 'owner', 'vcut', 'vdown')
PLANS = {
    'quick': [(1, None, 3, 2, True, True), (2, QUICK_ATOMS, 3, 2, False, False), (2, 'NESTED', 3, 2, True, False)],
    # (sized for about 3.5 * 10^5 generated graphs; the first version of this tier had 1.3 million and was never run to the end)
    'thorough': [(1, None, 3, 2, True, True), (1, None, 4, 2, False, False), (2, None, 3, 2, False, False),
                 (2, QUICK_ATOMS, 3, 3, False, False), (2, 'NESTED', 3, 2, True, False),
                 (3, ('down', 'peers', 'rights', 'vdown'), 3, 1, False, False)],
}

_BASE = sem.Lang(families.sem_lang())


def _nested_setop(e):
    """a set operator that is applied after a navigation / under a closure (where the per-asset and the
    pooled reading differ)"""
    k = e['type']
    if k == 'collect':
        return sem.has(e['rhs'], 'intersection') or sem.has(e['rhs'], 'difference') or sem.has(e['rhs'], 'union') \
            or _nested_setop(e['lhs'])
    if k in ('transitive', 'subType'):
        inner = e['stepExpression']
        return inner['type'] in ('union', 'intersection', 'difference') and k == 'transitive' or _nested_setop(inner)
    if k in ('union', 'intersection', 'difference'):
        return _nested_setop(e['lhs']) or _nested_setop(e['rhs'])
    return False


def expressions(kmax, atoms):
    if atoms == 'NESTED':
        aa = [e for e, _t in sem.gen_upto(_BASE, 'Aa', kmax, {'down', 'peers', 'peersOf'}) if _nested_setop(e)]
        return aa, []
    aa = [e for e, _t in sem.gen_upto(_BASE, 'Aa', kmax, set(atoms) if atoms else None)]
    dd = [e for e, _t in sem.gen_upto(_BASE, 'Dd', min(kmax, 2), None)]
    return aa, dd


def chunk_spec(aa_exprs, dd_exprs):
    aa_steps = [step(f's{i}', 'or', reaches=[COL(e, S('t'))]) for i, e in enumerate(aa_exprs)]
    # a few steps are re-declared on Bb with '+>' so that a node's children are the union over
    # several resolved expressions, and one with '->' so that the inherited one must be dropped
    bb_steps = []
    for i in range(min(3, len(aa_exprs))):
        bb_steps.append(step(f's{i}', 'or', reaches=[COL(F('peers'), S('t'))], overrides=(i == 2)))
    dd_steps = [step(f'd{i}', 'or', reaches=[COL(e, S('t'))]) for i, e in enumerate(dd_exprs)]
    return families.sem_lang(aa_steps, bb_steps, dd_steps)


_CACHE = {}


def _plan_data(plan):
    if plan not in _CACHE:
        kmax, atoms, n, l, two, _both = plan
        aa, dd = expressions(kmax, atoms)
        chunks = []
        for i in range(0, max(len(aa), 1), CHUNK):
            chunks.append((aa[i:i + CHUNK], dd if i == 0 else []))
        models = [pm for pm in modelgen.enum_models(_BASE, _BASE.sp, TYPES, n, l, two)]
        _CACHE[plan] = (chunks, models)
    return _CACHE[plan]


def expected_children(lang, pm, resolved_by_type):
    """{(asset, step): (lo set, hi set) of (asset, step)}"""
    out = {}
    for name, t in pm.assets:
        for sname, r in resolved_by_type[t].items():
            lo, hi = set(), set()
            for e in r['reaches']:
                if e['type'] == 'attackStep':
                    a = ({name}, {name})
                    tgt = e['name']
                else:
                    a = sem.ev(lang, pm, e['lhs'], {name}, {name})
                    tgt = e['rhs']['name']
                lo |= {(x, tgt) for x in a[0]}
                hi |= {(x, tgt) for x in a[1]}
            out[(name, sname)] = (lo, hi)
    return out


def check_one(fx, lang, resolved, pm, reverse_links, stats):
    from maltoolbox.attackgraph import AttackGraph
    model, objs = modelgen.build(fx, pm, reverse_links=reverse_links)
    viols = []
    import sys
    old_limit = sys.getrecursionlimit()
    try:
        # evaluation depth on these inputs is tiny; a low limit makes runaway recursion fail fast
        sys.setrecursionlimit(400)
        with common.time_limit(3):
            g = AttackGraph(fx.lang_graph, model)
    except RecursionError:
        sys.setrecursionlimit(old_limit)
        bad = _localise_failure(fx, model, objs, pm, resolved)
        return [common.Violation('termination:RecursionError:' + bad[0],
                                 'attack-graph generation does not terminate (RecursionError) on a finite model',
                                 case={'model': pm.describe(), 'expr': bad[1]})]
    except common.Timeout:
        sys.setrecursionlimit(old_limit)
        return [common.Violation('termination:timeout', 'attack-graph generation exceeded 3 s (median: a few ms)',
                                 case={'model': pm.describe()})]
    except Exception as e:  # noqa: BLE001
        sys.setrecursionlimit(old_limit)
        bad = _localise_failure(fx, model, objs, pm, resolved)
        return [common.Violation(f'generation_raised:{type(e).__name__}:' + bad[0],
                                 f'attack-graph generation raised {type(e).__name__}: {e}',
                                 case={'model': pm.describe(), 'expr': bad[1]})]
    finally:
        sys.setrecursionlimit(old_limit)
    exp = expected_children(lang, pm, resolved)
    nodes = {(n.asset.name, n.name): n for n in g.nodes}
    stats['nodes'] = stats.get('nodes', 0) + len(nodes)
    for key, (lo, hi) in exp.items():
        n = nodes.get(key)
        if n is None:
            continue                                  # node set is C02's business
        got = {(c.asset.name, c.name) for c in n.children}
        if lo:
            stats['nonempty'] = stats.get('nonempty', 0) + 1
        if not (lo <= got <= hi):
            t = pm.types[key[0]]
            exprs = resolved[t][key[1]]['reaches']
            op, sub = _localise(fx, model, objs, lang, pm, key[0], exprs)
            viols.append(common.Violation(
                'children_mismatch:' + op,
                f'children of {key[0]}:{key[1]} differ from the MAL semantics of its reaches expressions',
                case={'model': pm.describe(), 'reverse_links': reverse_links, 'node': list(key),
                      'exprs': [sem.show(e) for e in exprs], 'expr_trees': exprs, 'diverging_subexpr': sub},
                expected={'lo': sorted(lo), 'hi': sorted(hi)}, observed=sorted(got)))
            if len(viols) > 5:
                break
    # the parent relation is exactly the converse of the child relation
    ch = {(k, (c.asset.name, c.name)) for k, n in nodes.items() for c in n.children}
    pa = {((p.asset.name, p.name), k) for k, n in nodes.items() for p in n.parents}
    if ch != pa:
        viols.append(common.Violation('parents_not_converse', 'parent relation is not the converse of the child relation',
                                      case={'model': pm.describe()},
                                      expected=sorted(ch - pa)[:5], observed=sorted(pa - ch)[:5]))
    for k, n in nodes.items():
        for c in n.children:
            if not any(c is x for x in g.nodes):
                viols.append(common.Violation('child_not_in_graph', 'child object is not a node of the graph',
                                              case={'model': pm.describe()}))
    stats['edges'] = stats.get('edges', 0) + len(ch)
    return viols


def _real_eval(fx, model, objs, start_names, e):
    from maltoolbox.attackgraph import attackgraph as agm
    r, _ = agm._process_step_expression(fx.lang_graph, model, [objs[x] for x in sorted(start_names)], e)
    return {a.name for a in r}


def _localise(fx, model, objs, lang, pm, start, exprs):
    """innermost sub-expression on which the real evaluator (private, used for the report only)
    and the reference disagree when both are given the reference's input set"""
    try:
        for e in exprs:
            body = e['lhs'] if e['type'] == 'collect' else None
            if body is None:
                continue
            trace = []
            sem.ev(lang, pm, body, {start}, {start}, trace)
            for sub, lo_in, hi_in, (lo, hi) in trace:      # post-order: innermost first
                if lo_in != hi_in:
                    continue
                got = _real_eval(fx, model, objs, lo_in, sub)
                if not (lo <= got <= hi):
                    return sub['type'], {'expr': sem.show(sub), 'input': sorted(lo_in),
                                         'expected_lo': sorted(lo), 'expected_hi': sorted(hi),
                                         'observed': sorted(got)}
    except Exception as ex:  # noqa: BLE001
        return 'unlocalised', {'error': type(ex).__name__}
    return 'unlocalised', None


def _localise_failure(fx, model, objs, pm, resolved):
    from maltoolbox.attackgraph import attackgraph as agm
    try:
        for name, t in pm.assets:
            for sname, r in resolved[t].items():
                for e in r['reaches']:
                    try:
                        with common.time_limit(5):
                            agm._process_step_expression(fx.lang_graph, model, [objs[name]], e)
                    except (Exception, common.Timeout):  # noqa: BLE001
                        return '+'.join(sorted(sem.ops_in(e) - {'field', 'attackStep', 'collect'})) or 'collect', \
                            {'start': name, 'expr': sem.show(e)}
    except BaseException:  # noqa: BLE001
        pass
    return 'unlocalised', None


@common.job
def _job(job):
    plan, ci, lo, hi = job
    chunks, models = _plan_data(plan)
    aa, dd = chunks[ci]
    sp = chunk_spec(aa, dd)
    fx = langs.fixture(sp, key=('C01', plan, ci))
    lang = sem.Lang(sp)
    resolved = {t: inherit.resolve(sp, t) for t in TYPES}
    stats, viols, slow = {}, [], 0
    both = plan[5]
    for pm in models[lo:hi]:
        if not dd and not any(t in ('Aa', 'Bb') for _n, t in pm.assets):
            stats['skipped_no_source_asset'] = stats.get('skipped_no_source_asset', 0) + 1
            continue
        for rev in ((False, True) if both and len(pm.links) > 1 else (False,)):
            if not fx.intact():
                stats['fixture_contaminated'] = stats.get('fixture_contaminated', 0) + 1
                fx = langs.fixture(sp, key=('C01', plan, ci), fresh=True)
            vs = check_one(fx, lang, resolved, pm, rev, stats)
            stats['graphs'] = stats.get('graphs', 0) + 1
            viols += [v.to_json() for v in vs]
            slow += sum(1 for v in vs if v.key.startswith('termination'))
        if slow >= 3:
            # circuit breaker: non-termination already established, do not burn the budget
            stats['jobs_cut_short_after_termination_violations'] = 1
            break
    stats['step_evaluations'] = sum(len(resolved[t]) for _n, t in pm.assets) if models[lo:hi] else 0
    return stats, viols[:50]


def chain_cases():
    """long navigation chains over densely linked models: the result is a tiny set, an evaluator that keeps
    lists (one entry per path) needs time exponential in the length of the chain"""
    def chain(k, sub):
        hop = SUB('Aa', F('peers')) if sub is True else F('peers')
        e = hop
        for _ in range(k - 1):
            e = COL(e, hop)
        return COL(e, S('t'))
    dense2 = sem.PlainModel([('a1', 'Aa'), ('a2', 'Bb')], [('Peer', 'peers', ['a1', 'a2'], 'peersOf', ['a1', 'a2'])])
    dense3 = sem.PlainModel([('a1', 'Aa'), ('a2', 'Bb'), ('a3', 'Aa')],
                            [('Peer', 'peers', ['a1', 'a2', 'a3'], 'peersOf', ['a1', 'a2', 'a3'])])
    ring = sem.PlainModel([('a1', 'Aa'), ('a2', 'Aa'), ('c1', 'Cc')],
                          [('Peer', 'peers', ['a1'], 'peersOf', ['a2']), ('Peer', 'peers', ['a2'], 'peersOf', ['a1']),
                           ('Peer', 'peers', ['c1'], 'peersOf', ['a1', 'a2'])])
    names6 = [f'a{i}' for i in range(1, 7)]
    dense6 = sem.PlainModel([(n, 'Aa' if i % 2 else 'Bb') for i, n in enumerate(names6)],
                            [('Peer', 'peers', names6, 'peersOf', names6)])

    def nested(k, op):
        # peers.(peers.( ... (peers op peersOf) ... op peersOf) op peersOf): set operators nested under navigation
        e = op(F('peers'), F('peersOf'))
        for _ in range(k):
            e = op(COL(F('peers'), e), F('peersOf'))
        return COL(e, S('t'))
    out = []
    for k, sub in ((4, True), (6, True), (10, True), (12, False), (24, False), (40, False)):
        for mname, pm in (('dense2', dense2), ('dense3', dense3), ('ring', ring)):
            out.append((k, sub, mname, chain(k, sub), pm))
    for k in (4, 8, 12):
        for oname, op in (('union', UNI), ('intersection', INT), ('difference', DIF)):
            for mname, pm in (('dense3', dense3), ('dense6', dense6)):
                out.append((k, 'nested_' + oname, mname, nested(k, op), pm))
    return out


@common.job
def _job_chain(i):
    k, sub, mname, e, pm = chain_cases()[i]
    st = step('s0', 'or', reaches=[e])
    sp = families.sem_lang([st], [], [])
    fx = langs.fixture(sp, key=('C01chain', i))
    lang = sem.Lang(sp)
    resolved = {t: inherit.resolve(sp, t) for t in TYPES}
    stats = {}
    vs = check_one(fx, lang, resolved, pm, False, stats)
    out = []
    for v in vs:
        j = v.to_json()
        j['key'] = j['key'] + (':' + sub if isinstance(sub, str) else ':chain_of_subtype_filters' if sub else ':chain_of_fields')
        j['case'] = dict(j.get('case') or {}, chain_length=k, model_name=mname)
        out.append(j)
    stats['graphs'] = 1
    stats['chain_cases'] = 1
    return stats, out


def make_hist_system(name):
    from ..refmodel import ModelSystem
    return ModelSystem({'name': name, 'spec': families.ops_lang(), 'types': ['Host', 'Data'],
                        'pair_classes': ['Peer', 'Holds'], 'ep_steps': ['access'], 'invalid_ops': False,
                        'graph_oracle': True, 'simple_assets': True, 'max_assets': 3, 'max_assocs': 2, 'max_attackers': 0})


def run(tier, seed):
    res = common.Result(PROP, tier, seed, 'model_checking')
    res.rule = ('every statically well-typed step expression up to the operator bound (as a generated '
                'attack step of the SEM language family) x every instance model up to the asset/link '
                'bound; one state = one (language chunk, model) pair whose generated graph is compared '
                'edge by edge with the interval set semantics; non-trivial = expected child set non-empty')
    res.assumptions = ['intersection/difference are only generated where pointwise and set-level '
                       'readings of MAL agree (input is the single start asset)',
                       'transitive: closure+ <= result <= closure*']
    nstates = 0
    for plan in PLANS[tier]:
        chunks, models = _plan_data(plan)
        n_expr = sum(len(a) + len(d) for a, d in chunks)
        per = max(1, min(400, len(models) // 32 + 1))
        jobs = [(plan, ci, lo, min(lo + per, len(models)))
                for ci in range(len(chunks)) for lo in range(0, len(models), per)]
        jobs = common.rotate(jobs, seed)
        for stats, viols in common.pmap(_job, jobs):
            res.merge_counts(stats)
            res.add_violations(viols)
        res.bounds[f'plan ops<={plan[0]} atoms={plan[1]} N<={plan[2]} L<={plan[3]} two_member={plan[4]}'] = {
            'expressions': n_expr, 'models': len(models), 'chunks': len(chunks)}
        nstates += len(models) * len(chunks)
        res.sample({'expression': sem.show(chunks[-1][0][-1]), 'model': models[-1].describe()})
    # part C: navigation chains of 4 .. 40 hops over densely linked models (termination in practice)
    for stats, viols in common.pmap(_job_chain, common.rotate(list(range(len(chain_cases()))), seed)):
        res.merge_counts(stats)
        res.add_violations(viols)
    res.bounds['chains'] = 'peers / peers[Aa] chains of 4..40 hops x {2, 3 mutually linked assets, ring}; set operators nested 4..12 deep under navigation x {3, 6 mutually linked assets}; 3 s CPU per graph'
    # part B: models reached by edit histories (removals, partial removals, re-adds), with graph
    # generation itself as an operation, so that state hidden in the model (caches, stale
    # registrations) is exercised: every reached state's graph is compared with the semantics
    from .. import engine_hist
    depth = 4 if tier == 'quick' else 5
    hres = common.Result(PROP, tier, seed, 'model_checking')
    reps = engine_hist.explore(make_hist_system, 'OPS', depth, 1, hres, seed, label=f'[histories,OPS,D{depth},K1]')
    res.add_violations(list(hres.violations.values()))
    res.bounds.update(hres.bounds)
    res.count('history_states', len(reps))
    res.count('history_transitions', hres.counters.get('transitions', 0))
    res.sample({'history': sorted(reps.values(), key=lambda t: -len(t[0]))[0][0]})
    c = res.counters
    c['graphs'] = c.get('graphs', 0) + hres.counters.get('transitions', 0)
    c['states'] = c.get('graphs', 0)
    c['transitions'] = c.get('nodes', 0)
    c['traces_validated_against_impl'] = c.get('nodes', 0)
    c['evaluations'] = c.get('nodes', 0)
    c['distinct_nontrivial'] = c.get('nonempty', 0)
    res.extra['explanation'] = ('states = attack graphs generated by the real code (one per language chunk x model); '
                                'transitions = attack-step nodes whose child set was compared with the reference')
    return res.finish()


def replay(path):
    """re-evaluates the single (expressions, model) case of a replay file on a one-step language"""
    j = json.load(open(path))
    case = j['case']
    if 'history' in case:                      # part B (edit histories)
        from .. import engine_hist
        system = make_hist_system(eval(case['system']))
        hist = [tuple(_t(x) for x in op) for op in case['history']]
        ctx = engine_hist.replay(system, hist)
        try:
            system.step(ctx, tuple(_t(x) for x in case['op']), True)
        except common.Violation as v:
            print('reproduced:', v)
            print(f'VIOLATION property={PROP} replay={path}')
            return 1
        print('not reproduced')
        return 0
    if 'expr_trees' not in case:
        print(json.dumps(j, indent=1)[:3000])
        print('this case is re-evaluated by the quick tier (it is part of the enumerated space)')
        return 1
    pm = sem.PlainModel([tuple(a) for a in case['model']['assets']], [tuple(l) for l in case['model']['links']])
    t = pm.types[case['node'][0]]
    st = step('s0', 'or', reaches=case['expr_trees'])
    sp = families.sem_lang([st] if t in ('Aa', 'Bb') else [], [], [st] if t == 'Dd' else [])
    fx = langs.fixture(sp)
    lang = sem.Lang(sp)
    resolved = {x: inherit.resolve(sp, x) for x in TYPES}
    vs = check_one(fx, lang, resolved, pm, case.get('reverse_links', False), {})
    for v in vs:
        print('reproduced:', v)
    if vs:
        print(f'VIOLATION property={PROP} replay={path}')
        return 1
    print('not reproduced')
    return 0


def _t(x):
    return tuple(_t(y) for y in x) if isinstance(x, list) else x
