"""C14 - a deep copy of an attack graph is equal and fully independent (states from engine H)."""
import copy
import json

from .. import common, engine_hist, refgraph
from . import c09

PROP = 'C14'
PLANS = {'quick': [('GOPS', 'all', 3, 1), ('GOPS2', 'all', 2, 1), ('GOPS', 'all', 1, 1, 'plain', 'busy'), ('GOPS', 'all', 1, 1, 'plain', 'reloaded')],
         'thorough': [('GOPS', 'all', 3, 2), ('GOPS2', 'all', 3, 1), ('GOPS', 'all', 2, 1, 'plain', 'busy'), ('GOPS', 'all', 2, 1, 'plain', 'reloaded')]}
EDITS = ['edit_tags', 'edit_extras', 'edit_ttc', 'edit_children', 'edit_flags']


def containers(g):
    """id() -> description of every node, attacker and mutable per-node container of the graph"""
    out = {}

    def add(o, what):
        if o is not None:
            out[id(o)] = what

    def deep(o, what, depth=0):
        """every mutable container nested inside per-node data (extras, ttc, tags)"""
        if isinstance(o, dict):
            add(o, what)
            for k, v in o.items():
                deep(v, f'{what}[{k!r}]', depth + 1)
        elif isinstance(o, list):
            add(o, what)
            for k, v in enumerate(o):
                deep(v, f'{what}[{k}]', depth + 1)
    add(g.nodes, 'graph.nodes')
    add(g.attackers, 'graph.attackers')
    for n in g.nodes:
        add(n, f'node {n.id}')
        add(n.children, f'node {n.id}.children')
        add(n.parents, f'node {n.id}.parents')
        add(n.compromised_by, f'node {n.id}.compromised_by')
        deep(n.tags if isinstance(n.tags, (list, dict)) else None, f'node {n.id}.tags')
        deep(n.extras, f'node {n.id}.extras')
        deep(n.ttc if isinstance(n.ttc, dict) else None, f'node {n.id}.ttc')
    for a in g.attackers:
        add(a, f'attacker {a.id}')
        add(a.entry_points, f'attacker {a.id}.entry_points')
        add(a.reached_attack_steps, f'attacker {a.id}.reached_attack_steps')
    return out


def decorate(g):
    """structured (nested) extras on every second node: a shallow copy would share the inner values"""
    for k, n in enumerate(g.nodes):
        if k % 2 == 0 and isinstance(n.extras, dict) and 'pos' not in n.extras:
            n.extras['pos'] = {'x': k, 'path': [k, {'deep': k}]}


def counters(g):
    return {k: v for k, v in vars(g).items() if isinstance(v, int) and not isinstance(v, bool)}


def apply_edit(g, kind):
    n = next((x for x in g.nodes if isinstance(x.ttc, dict)), g.nodes[0]) if g.nodes else None
    if n is None:
        return False
    if kind == 'edit_tags':
        if not isinstance(n.tags, list):
            return False
        n.tags.append('EDITED')
    elif kind == 'edit_extras':
        n.extras['edited'] = {'k': 1}
        for m in g.nodes:                       # in-place update of values nested inside extras
            pos = m.extras.get('pos') if isinstance(m.extras, dict) else None
            if isinstance(pos, dict):
                pos['x'] = 'EDITED'
                pos.setdefault('path', []).append('EDITED')
    elif kind == 'edit_ttc':
        if not isinstance(n.ttc, dict):
            return False
        n.ttc['name'] = 'EDITED'
        if n.ttc.get('arguments'):
            n.ttc['arguments'][0] = 99.0
    elif kind == 'edit_children':
        n.children.append(n)
        n.parents.append(n)
    elif kind == 'edit_flags':
        n.is_viable = not n.is_viable
        n.defense_status = 0.25
    return True


def check_state(system, hist, stats):
    viols = []
    case = {'system': repr((system.which, system.alpha, system.cfg.get('names', 'plain'), system.cfg.get('start'))), 'history': [list(h) for h in hist]}

    def V(key, what, **kw):
        viols.append(common.Violation(key, what, case=dict(case, **kw.pop('extra', {})), **kw).to_json())
    c = engine_hist.replay(system, hist)
    orig = c.g
    decorate(orig)
    try:
        cp = copy.deepcopy(orig)
    except Exception as e:  # noqa: BLE001
        V(f'deepcopy_raised:{type(e).__name__}', f'deepcopy raised {e}')
        return viols
    stats['copies'] = stats.get('copies', 0) + 1
    o1, o2 = refgraph.observe(orig), refgraph.observe(cp)
    if o1 != o2:
        V('copy_not_equal', 'deep copy differs from the original', observed=refgraph._d(o1, o2))
        return viols
    # 'the same serialized content': the dict form itself, including the order of lists in it
    try:
        d1, d2 = orig._to_dict(), cp._to_dict()
        if json.dumps(d1, sort_keys=True, default=repr) != json.dumps(d2, sort_keys=True, default=repr):
            a = json.loads(json.dumps(d1, sort_keys=True, default=repr))
            b = json.loads(json.dumps(d2, sort_keys=True, default=repr))
            V('copy_serialization_differs', 'the serialized form of the copy differs from the original (e.g. the order of a list)',
              observed=refgraph._d(a, b))
    except Exception as e:  # noqa: BLE001
        V(f'copy_serialization_raised:{type(e).__name__}', str(e))
    if counters(orig) != counters(cp):
        V('copy_counters_differ', 'id counters of the copy differ', expected=counters(orig), observed=counters(cp))
    if cp.model is not orig.model or cp.lang_graph is not orig.lang_graph:
        V('copy_does_not_share_model', 'the copy must share the model and the language graph')
    try:
        refgraph.invariants(cp, c.ever_ids, c.ever_names, c.ever_aids)
    except common.Violation as v:
        V('copy_invariant:' + v.key, v.what)
        return viols
    shared = set(containers(orig)) & set(containers(cp))
    if shared:
        what = sorted(containers(cp)[i] for i in shared)
        kinds = sorted({(w.split('.')[1].split('[')[0] + ('(nested)' if '[' in w else '')) if '.' in w else w.split(' ')[0] for w in what})
        V('copy_shares_objects:' + '+'.join(kinds), 'the copy shares mutable objects with the original', observed=what[:8])
    for n in cp.nodes:
        if n.asset is not None and not any(n.asset is a for a in (orig.model.assets if orig.model else [])):
            V('copy_asset_binding', 'a copied node is bound to something that is not a model asset')
    # non-interference: every single operation / in-place edit on either side
    ops = [op for op, _cost in system.enabled(c)] + [(e,) for e in EDITS]
    for op in ops:
        for side in ('copy', 'original'):
            c2 = engine_hist.replay(system, hist)
            a = c2.g
            decorate(a)
            b = copy.deepcopy(a)
            target, other = (b, a) if side == 'copy' else (a, b)
            before = refgraph.observe(other)
            before_cnt = counters(other)
            c2.g = target
            try:
                if op[0] in EDITS:
                    if not apply_edit(target, op[0]):
                        continue
                else:
                    system.step(c2, op, False)
            except Exception:  # noqa: BLE001
                pass
            stats['mutations'] = stats.get('mutations', 0) + 1
            after = refgraph.observe(other)
            if after != before or counters(other) != before_cnt:
                V(f'interference:{op[0]}:on_{side}', f'{op[0]} applied to the {side} is visible in the other graph',
                  extra={'op': list(op)}, observed=refgraph._d(before, after))
            try:
                refgraph.invariants(other)
            except common.Violation as v:
                V(f'interference_invariant:{op[0]}:on_{side}:' + v.key, v.what, extra={'op': list(op)})
    return viols


@common.job
def _job(job):
    arg, hists = job
    system = engine_hist._system(c09.make_system, arg)
    stats, viols = {}, []
    for h in hists:
        viols += check_state(system, h, stats)
    return stats, viols[:40]


def run(tier, seed):
    res = common.Result(PROP, tier, seed, 'model_checking')
    res.rule = ('every distinct attack-graph state reached by the C09 search up to the depth bound is deep-copied; '
                'equality of observation, counters and lookups, identity audit of every node / attacker / per-node '
                'container, then every single operation of the C09 alphabet and 5 in-place edits applied to the copy '
                'and (separately) to the original with the other side compared before/after')
    scratch = common.Result(PROP, tier, seed, 'model_checking')
    total_states = 0
    for plan in PLANS[tier]:
        lang, alpha, depth, K = plan[:4]
        sysarg = (lang, alpha) + tuple(plan[4:])
        reps = engine_hist.explore(c09.make_system, sysarg, depth, K, scratch, seed, shard=16,
                                   label=f'[{",".join(map(str, sysarg))},D{depth},K{K}]')
        hists = [reps[k][0] for k in sorted(reps)]
        total_states += len(hists)
        hists = common.rotate(hists, seed)
        jobs = [(sysarg, hists[i:i + 8]) for i in range(0, len(hists), 8)]
        for stats, viols in common.pmap(_job, jobs):
            res.merge_counts(stats)
            res.add_violations(viols)
        res.sample({'language': lang, 'history': hists[-1]})
    res.bounds = dict(scratch.bounds)
    c = res.counters
    c['states'] = total_states
    c['transitions'] = c.get('mutations', 0) + c.get('copies', 0)
    c['traces_validated_against_impl'] = c['transitions']
    c['evaluations'] = c['transitions']
    c['distinct_nontrivial'] = total_states
    return res.finish()


def replay(path):
    j = json.load(open(path))
    c = j['case']
    system = c09.make_system(eval(c['system']))
    hist = tuple(tuple(c09._t(x) for x in op) for op in c['history'])
    vs = check_state(system, hist, {})
    for v in vs:
        print('reproduced:', v['key'], v['what'])
    if vs:
        print(f'VIOLATION property={PROP} replay={path}')
        return 1
    print('not reproduced')
    return 0
