"""C11 - attackers and nodes always agree on what is compromised (engine H, attacker-heavy alphabet)."""
from . import c09

PROP = 'C11'
PLANS = {
    'quick': [('GOPS', 'attackers', 5, 2), ('GOPS2', 'attackers', 5, 1)],
    'thorough': [('GOPS', 'attackers', 7, 1), ('GOPS', 'attackers', 6, 2), ('GOPS2', 'attackers', 6, 2),
                 ('GOPS', 'attackers', 4, 2, 'plain', 'busy')],
}


def run(tier, seed):
    return c09.run(tier, seed, prop=PROP, plans=PLANS[tier],
                   rule_extra='; alphabet: compromise / undo from either side (fresh, repeated, vacuous), '
                              'attach_attackers (entry points naming existing and missing steps), add_attacker '
                              'with reached ids / explicit ids, remove_attacker with 0-3 reached steps')


def replay(path):
    return c09.replay(path, prop=PROP)
