"""C17 - malformed MAL source is rejected, never half-compiled (fault enumeration, engine E)."""
import itertools
import json
import os

from .. import common, sandbox

PROP = 'C17'

PROGRAMS = {
    'tiny': '''#id: "org.t" #version: "1.0.0"
category Cc { asset Aa { | go -> go } }
associations { Aa [x] 1 <-- Ll --> * [y] Aa }
''',
    'steps': '''#id: "org.s"
#version: "1.0.0"
category Sys user info: "text" {
  abstract asset Base developer info: "d" {
    let vv = kids \\/ peers
    | access @hidden {C, I} [Exponential(0.5)] user info: "u" -> kids.access, vv().access
    & both [Bernoulli(0.5) * Exponential(1) + 2]
    # guard [Enabled] -> access
    E has <- kids -> access
    !E hasnot <- kids, peers -> both
  }
  asset Leaf extends Base {
    | access +> (kids /\\ peers)*.access, peers[Leaf].both, (kids - peers).access
  }
}
associations {
  Base [parent] 0..1 <-- Tree --> * [kids] Base user info: "a"
  Base [peers] 1..* <-- Peer --> 2 [peersOf] Base
}
''',
    'ttc': '''#id: "org.ttc" #version: "0.1.0"
category Kk { asset Tt {
 | a1 [Dist]
 | a2 [Dist(1, 2.5)]
 | a3 [(Dist + 3) ^ 2 / Exponential(0.1) - 1]
 # d1 [Disabled]
} }
''',
    'assocs': '''#id: "org.as" #version: "1.0.0"
category One { asset Pp { | s1 } asset Qq extends Pp { | s1 +> rs.s1 } }
category Two meta1 info: "m" { asset Rr { | s1 -> ps*.s1 } }
associations {
  Pp [ps] * <-- Link --> 0..* [rs] Rr
  Qq [qs] 1 <-- Link --> 1..* [rr] Rr developer info: "x" user info: "y"
}
''',
    'vars': '''#id: "org.v" #version: "1.0.0"
category Vv {
  asset Nn {
    let up2 = up.up
    let all = (up \\/ down)*
    | go -> up2().go, all()[Mm].go, (up.down /\\ down)*[Mm].go
  }
  asset Mm extends Nn { }
}
associations { Nn [up] 0..1 <-- Hier --> * [down] Nn }
''',
    'inc': '''#id: "org.i" #version: "1.0.0"
include "helper.mal"
category Mine { asset Xx extends Hh { | go +> hs.go } }
''',
}
HELPER = '''category Help { asset Hh { | go } }
associations { Hh [hs] * <-- Hl --> * [hs2] Hh }
'''
ROOT = '#id: "org.root" #version: "1.0.0"\ninclude "mut.mal"\ncategory Rt { asset Rr { | rr } }\n'
ROOT2 = '#id: "org.root2" #version: "1.0.0"\ninclude "mid.mal"\ncategory Rt2 { asset Rr2 { | rr } }\n'
MID = 'category Md { asset Mm { | mm } }\ninclude "mut.mal"\n'
RESERVED = ['abstract', 'asset', 'associations', 'extends', 'include', 'category', 'info', 'let', 'E', 'C', 'I', 'A']
INSERTS = ['abstract', 'asset', 'associations', 'extends', 'include', 'category', 'info', 'let', '"s"', '7', '0.5',
           'E', 'C', 'zz', '(', ')', '{', '}', '#', ':', '<--', '-->', '[', ']', '*', '=', '-', '/\\', '\\/', '..',
           '.', '&', '|', '!E', '@', '<-', '+>', '->', ',', '+', '/', '^', '$']


def tokens_of(text):
    from antlr4 import InputStream
    from maltoolbox.language.compiler.mal_lexer import malLexer
    lx = malLexer(InputStream(text))
    lx.removeErrorListeners()
    return [(t.text, t.type) for t in lx.getAllTokens()]


def grammar_errors(text):
    """the grammar's own verdict: lexer + parser with counting listeners (entry rule `mal`)"""
    from antlr4 import InputStream, CommonTokenStream
    from antlr4.error.ErrorListener import ErrorListener
    from maltoolbox.language.compiler.mal_lexer import malLexer
    from maltoolbox.language.compiler.mal_parser import malParser

    class Count(ErrorListener):
        def __init__(self):
            super().__init__()
            self.n = 0

        def syntaxError(self, recognizer, offendingSymbol, line, column, msg, e):
            self.n += 1
    c = Count()
    lx = malLexer(InputStream(text))
    lx.removeErrorListeners()
    lx.addErrorListener(c)
    ts = CommonTokenStream(lx)
    ps = malParser(ts)
    ps.removeErrorListeners()
    ps.addErrorListener(c)
    ps.mal()
    # the start rule has no EOF: the parser stops silently in front of a token that cannot begin a declaration.
    # A text is a sentence of the grammar only if nothing is left over.
    from antlr4 import Token
    if c.n == 0 and ts.LT(1).type != Token.EOF:
        return 1
    return c.n


def single_faults(toks, ident_type):
    """-> iterable of (fault kind, description, token text list)"""
    texts = [t for t, _ in toks]
    n = len(texts)
    for i in range(n):
        yield 'delete', i, texts[:i] + texts[i + 1:]
    for i in range(1, n):
        yield 'truncate', i, texts[:i]
    for i in range(n - 1):
        if texts[i] != texts[i + 1]:
            yield 'swap', i, texts[:i] + [texts[i + 1], texts[i]] + texts[i + 2:]
    for i in range(n + 1):
        for ins in INSERTS:
            yield 'insert', (i, ins), texts[:i] + [ins] + texts[i:]
    for i, (t, ty) in enumerate(toks):
        if ty == ident_type:
            for w in RESERVED:
                yield 'reserved_word', (i, w), texts[:i] + [w] + texts[i + 1:]


def evaluate(text, as_include, stats, d):
    """-> None if fine, else violation key suffix"""
    from maltoolbox.language.compiler import MalCompiler
    from maltoolbox.language import LanguageGraph
    errs = grammar_errors(text)
    if errs == 0:
        stats['still_grammatical'] = stats.get('still_grammatical', 0) + 1
        return None
    stats['malformed'] = stats.get('malformed', 0) + 1
    with open(os.path.join(d, 'helper.mal'), 'w', encoding='utf-8') as f:
        f.write(HELPER)
    if as_include:
        with open(os.path.join(d, 'mut.mal'), 'w', encoding='utf-8') as f:
            f.write(text)
        if as_include == 'nested':
            # root -> mid.mal -> mut.mal ; root.mal and mid.mal are never modified
            path = os.path.join(d, 'root2.mal')
        else:
            with open(os.path.join(d, 'root.mal'), 'w', encoding='utf-8') as f:
                f.write(ROOT)
            path = os.path.join(d, 'root.mal')
    else:
        path = os.path.join(d, 'mut.mal')
        with open(path, 'w', encoding='utf-8') as f:
            f.write(text)
    for how in ('compile', 'from_mal_spec'):
        try:
            if how == 'compile':
                MalCompiler().compile(path)
            else:
                LanguageGraph.from_mal_spec(path)
        except RecursionError:
            raise
        except BaseException:  # noqa: BLE001  any error report counts
            stats['rejected'] = stats.get('rejected', 0) + 1
            continue
        return how
    return None


@common.job
def _job(job):
    name, as_include, lo, hi, double = job
    import contextlib
    import io
    from maltoolbox.language.compiler.mal_lexer import malLexer
    text = PROGRAMS[name]
    toks = tokens_of(text)
    d = sandbox.tmpfile('_c17')
    os.makedirs(d, exist_ok=True)
    stats, viols = {}, []
    faults = list(single_faults(toks, malLexer.ID))
    if double:
        base = faults
        faults = []
        for kind, where, texts in base[lo:hi]:
            if kind not in ('delete', 'swap'):
                continue
            toks2 = [(t, malLexer.ID if t.isidentifier() and t not in RESERVED else 0) for t in texts]
            for kind2, where2, texts2 in single_faults(toks2, -1):
                if kind2 in ('delete', 'swap', 'truncate'):
                    faults.append((kind + '+' + kind2, (where, where2), texts2))
        sl = faults
    else:
        sl = faults[lo:hi]
    sink = io.StringIO()
    with contextlib.redirect_stderr(sink), contextlib.redirect_stdout(sink):
        # history dimension: the valid program is compiled first at the very paths the mutants are
        # then written to, in the same process (a result remembered per path must not mask a later error)
        from maltoolbox.language.compiler import MalCompiler
        with open(os.path.join(d, 'helper.mal'), 'w', encoding='utf-8') as f:
            f.write(HELPER)
        for fn_, body in (('mut.mal', text), ('root.mal', ROOT), ('root2.mal', ROOT2), ('mid.mal', MID)):
            with open(os.path.join(d, fn_), 'w', encoding='utf-8') as f:
                f.write(body)
        try:
            MalCompiler().compile(os.path.join(d, 'mut.mal'))
            if name != 'inc':
                MalCompiler().compile(os.path.join(d, 'root.mal'))
                MalCompiler().compile(os.path.join(d, 'root2.mal'))
            stats['valid_base_compiles'] = stats.get('valid_base_compiles', 0) + 1
        except Exception as e:  # noqa: BLE001
            viols.append(common.Violation(f'valid_program_rejected:{type(e).__name__}', f'base program {name} does not compile: {e}',
                                          case={'program': name}).to_json())
        for kind, where, texts in sl:
            mut = ' '.join(texts) + '\n'
            stats['mutants'] = stats.get('mutants', 0) + 1
            how = evaluate(mut, as_include, stats, d)
            if how is not None:
                viols.append(common.Violation(
                    f'malformed_source_accepted:{kind}:' + ({False: 'root', True: 'included', 'nested': 'nested_include'}[as_include]),
                    f'{how} returned normally for a text the grammar rejects',
                    case={'program': name, 'fault': kind, 'where': where, 'as_include': as_include,
                          'text': mut[:600]}).to_json())
    agg = {}
    for v in viols:
        if v['key'] not in agg:
            agg[v['key']] = dict(v, count=0)
        agg[v['key']]['count'] += 1
    return stats, list(agg.values())


def run(tier, seed):
    res = common.Result(PROP, tier, seed, 'fault_enumeration')
    res.rule = ('every single-token fault (delete each token, truncate after each token, swap each adjacent pair, insert one '
                'representative of every token type at every position, replace every identifier by every reserved word) of 6 '
                'programs that together use every grammar rule, compiled as the root file, as a file included by a valid '
                'root and (two programs) as a file included by an unmodified file that the root includes; thorough: every pair (delete|swap) x (delete|swap|truncate) on the smallest program. A mutant counts '
                '(non-trivial) iff the repository\'s own ANTLR lexer+parser report >= 1 error on it; then compile() and '
                'LanguageGraph.from_mal_spec() must raise')
    jobs = []
    for name, text in PROGRAMS.items():
        n = len(list(single_faults(tokens_of(text), -999))) + 200
        for as_inc in (False, True, 'nested'):
            if name == 'inc' and as_inc:
                continue
            if as_inc == 'nested' and name not in ('tiny', 'assocs'):
                continue
            for lo in range(0, n, 400):
                jobs.append((name, as_inc, lo, lo + 400, False))
    if tier == 'thorough':
        for prog in ('tiny', 'inc', 'ttc'):
            nt = len(tokens_of(PROGRAMS[prog]))
            for lo in range(0, 3 * nt, 4):
                jobs.append((prog, False, lo, lo + 4, True))
    jobs = common.rotate(jobs, seed)
    for stats, viols in common.pmap(_job, jobs, chunksize=1):
        res.merge_counts(stats)
        res.add_violations(viols)
    res.bounds = {'programs': list(PROGRAMS), 'faults_per_text': 1 if tier == 'quick' else '1 (all programs) and 2 (tiny)'}
    res.sample({'program': 'tiny', 'fault': 'delete token 3', 'text': ' '.join(t for t, _ in tokens_of(PROGRAMS['tiny'])[:3] + tokens_of(PROGRAMS['tiny'])[4:12])})
    c = res.counters
    c['evaluations'] = c.get('mutants', 0)
    c['distinct_nontrivial'] = c.get('malformed', 0)
    return res.finish()


def replay(path):
    j = json.load(open(path))
    c = j['case']
    d = sandbox.tmpfile('_c17r')
    os.makedirs(d, exist_ok=True)
    how = evaluate(c['text'], c['as_include'], {}, d)
    if how is not None:
        print('reproduced: accepted by', how)
        print(f'VIOLATION property={PROP} replay={path}')
        return 1
    print('not reproduced')
    return 0
