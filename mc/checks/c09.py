"""C09 - attack-graph structure and lookup indexes stay consistent in any history (engine H)."""
import json

from .. import common, engine_hist
from ..refgraph import GraphSystem

PROP = 'C09'
PLANS = {
    'quick': [('GOPS', 'structure', 4, 1), ('GOPS2', 'structure', 3, 1), ('GOPS', 'all', 3, 2),
              ('GOPS', 'structure', 2, 1, 'auto'), ('GOPS', 'all', 2, 1, 'plain', 'busy'),
              ('GOPS', 'all', 2, 1, 'plain', 'reloaded')],
    'thorough': [('GOPS', 'structure', 5, 1), ('GOPS2', 'structure', 4, 1), ('GOPS', 'all', 4, 1), ('GOPS', 'all', 3, 2),
                 ('GOPS2', 'all', 3, 2), ('GOPS', 'all', 3, 1, 'plain', 'busy'), ('GOPS', 'all', 3, 1, 'plain', 'reloaded'),
                 ('GOPS', 'all', 3, 1, 'auto')],
}


def make_system(arg):
    lang, alpha = arg[0], arg[1]
    return GraphSystem({'lang': lang, 'alphabet': alpha, 'names': arg[2] if len(arg) > 2 else 'plain',
                        'start': arg[3] if len(arg) > 3 else None})


@common.job
def stale_twins(_arg):
    """node objects of the generation before regenerate_graph() compare equal (dataclass ==) to the edge-less nodes
    that took their place: calls that are given such an object must not act on the live twin"""
    import copy
    from .. import langs, refgraph
    from ..langs import S, asset, assoc, spec, step
    from maltoolbox.attackgraph import AttackGraph, Attacker
    from maltoolbox.model import Model
    sp = spec([asset('Hh', steps=[step('connect', 'or', reaches=[S('access')]), step('access', 'or'), step('backdoor', 'or'),
                                  step('spare', 'and')])],
              [assoc('Ln', 'Hh', 'aa', '*', '*', 'bb', 'Hh')], lang_id='org.verif.twins')
    fx = langs.fixture(sp)
    viols, n = [], 0
    for n_assets in (1, 2):
        for with_attacker in (False, True):
            m = Model('m', fx.factory)
            for i in range(n_assets):
                m.add_asset(fx.ns.Hh(name=f'h{i}'))
            g = AttackGraph(fx.lang_graph, m)
            old = list(g.nodes)
            for k, stale in enumerate(old):
                g.regenerate_graph()
                if with_attacker:
                    g.add_attacker(Attacker(name='att', entry_points=[], reached_attack_steps=[]),
                                   entry_points=[x.id for x in g.nodes], reached_attack_steps=[g.nodes[k].id])
                before = refgraph.observe(g)
                n += 1
                try:
                    g.remove_node(stale)
                except Exception:  # noqa: BLE001
                    pass
                case = {'scenario': 'remove_node(node object of the previous generation)', 'assets': n_assets,
                        'node': stale.full_name, 'attacker': with_attacker}
                if refgraph.observe(g) != before:
                    viols.append(common.Violation('remove_node:stale_equal_twin:changed_the_graph',
                                                  'remove_node was given a node of the previous generation and acted on the node that took its place',
                                                  case=case).to_json())
                    break
                try:
                    refgraph.invariants(g)
                except common.Violation as v:
                    viols.append(common.Violation('remove_node:stale_equal_twin:' + v.key, v.what, case=case).to_json())
                    break
    return {'transitions': n, 'stale_twin_calls': n}, viols


def run(tier, seed, prop=PROP, plans=None, rule_extra=''):
    res = common.Result(prop, tier, seed, 'model_checking')
    res.rule = ('level-synchronous BFS over histories of AttackGraph / Attacker / analyser calls on real graphs '
                'generated from two small languages; structural invariants (edges mirrored and inside the graph, '
                'lookups exact for present and stale keys, attackers <-> nodes) in every state and a functional '
                'reference for the effect of every operation; distinct = canonical dump of the whole object graph' + rule_extra)
    res.assumptions = ['automatically chosen ids are observed and only constrained to be unique; list orders are not compared']
    for plan in (plans or PLANS[tier]):
        lang, alpha, depth, K = plan[:4]
        sysarg = (lang, alpha) + tuple(plan[4:])
        reps = engine_hist.explore(make_system, sysarg, depth, K, res, seed, shard=16,
                                   label=f'[{",".join(map(str, sysarg))},D{depth},K{K}]')
        for k in sorted(reps)[:2]:
            res.sample({'language': lang, 'alphabet': alpha, 'history': reps[k][0]})
        res.count('distinct_nontrivial', len(reps) - 1)
    if prop == PROP:
        for stats, viols in common.pmap(stale_twins, [0]):
            res.merge_counts(stats)
            res.add_violations(viols)
    res.count('traces_validated_against_impl', res.counters.get('transitions', 0))
    res.count('evaluations', res.counters.get('transitions', 0))
    return res.finish()


def replay(path, prop=PROP):
    j = json.load(open(path))
    case = j['case']
    system = make_system(eval(case['system']))
    hist = [tuple(_t(x) for x in op) for op in case['history']]
    if case.get('op') is None:
        print('state-leak finding: it only shows when other executions ran before in the same process; re-run the tier')
        return 1
    op = tuple(_t(x) for x in case['op'])
    ctx = engine_hist.replay(system, hist)
    try:
        system.step(ctx, op, True)
        system.invariant(ctx)
    except common.Violation as v:
        print('reproduced:', v)
        print(f'VIOLATION property={prop} replay={path}')
        return 1
    print('not reproduced')
    return 0


def _t(x):
    return tuple(_t(y) for y in x) if isinstance(x, list) else x
