"""C18 - legacy model loaders agree with the native loader (states from engine H, inverse emitters)."""
import json
import os
import zipfile
from xml.sax.saxutils import quoteattr

import yaml

from .. import common, engine_hist, families, langs, sandbox
from ..refs import inherit
from . import c07

PROP = 'C18'


# --------------------------------------------------------------------------- normal form

def normal_form(m):
    d = m._to_dict()
    assets = {int(i): (a['name'], a['type'], tuple(sorted((a.get('defenses') or {}).items()))) for i, a in d['assets'].items()}
    links = set()
    for e in d['associations']:
        cls = next(k for k in e if k != 'extras')
        (f1, m1), (f2, m2) = list(e[cls].items())
        for x in m1:
            for y in m2:
                links.add((cls, f1, int(x), f2, int(y)))
    eps = set()
    for aid, a in d['attackers'].items():
        for asset_id, ep in a['entry_points'].items():
            for s in ep['attack_steps']:
                eps.add((int(aid), int(asset_id), s))
    return {'assets': assets, 'links': sorted(links), 'entry_points': sorted(eps),
            'attacker_ids': sorted(int(a) for a in d['attackers'])}


# --------------------------------------------------------------------------- emitters (inverse of the loaders' conventions)

def emit_0_0_39(d, inline):
    """native dict -> 0.0.39 layout ('metaconcept' keys; association fields nested or inline)"""
    out = {'metadata': {'name': d['metadata']['name']}, 'assets': {}, 'associations': [], 'attackers': {}}
    for i, a in d['assets'].items():
        x = {'metaconcept': a['type'], 'name': a['name']}
        if a.get('defenses'):
            x['defenses'] = dict(a['defenses'])
        out['assets'][str(i)] = x
    for e in d['associations']:
        cls = next(k for k in e if k != 'extras')
        if inline:
            x = {'metaconcept': cls}
            x.update(e[cls])
        else:
            x = {'metaconcept': cls, 'association': dict(e[cls])}
        out['associations'].append(x)
    for i, a in d['attackers'].items():
        out['attackers'][str(i)] = {'name': a['name'],
                                    'entry_points': {str(k): dict(v) for k, v in a['entry_points'].items()}}
    return out


def emit_scad(d, sp, path, flip):
    """native dict -> .sCAD archive (one <associations> element per linked pair / entry point)"""
    xs = ['<?xml version="1.0" encoding="utf-8"?>',
          '<com.foreseeti.kernalCAD:XMIObjectModel xmi:version="2.0" xmlns:xmi="http://www.omg.org/XMI" '
          'xmlns:com.foreseeti.kernalCAD="http:///com/foreseeti/ObjectModel.ecore">']
    k = 0
    for i, a in d['assets'].items():
        k += 1
        xs.append(f'  <objects description="" id="{int(i)}" name={quoteattr(a["name"])} metaConcept="{a["type"]}" template="false" exportedId="{k}">')
        decl = {n: r for n, r in inherit.resolve(sp, a['type']).items()}
        for n, r in decl.items():
            cap = n[0].upper() + n[1:]
            if r['decl']['type'] == 'defense' and n in (a.get('defenses') or {}):
                xs.append(f'    <evidenceAttributes metaConcept="{cap}"><evidenceDistribution type="Bernoulli">'
                          f'<parameters name="probability" value="{a["defenses"][n]}"/></evidenceDistribution></evidenceAttributes>')
            elif r['decl']['type'] == 'defense':
                xs.append(f'    <evidenceAttributes metaConcept="{cap}"><evidenceDistribution type="Bernoulli">'
                          f'<parameters name="probability"/></evidenceDistribution></evidenceAttributes>')
            else:
                xs.append(f'    <evidenceAttributes metaConcept="{cap}"/>')
        xs.append('    <existence type="FixedBoolean"><parameters name="fixed" value="1.0"/></existence>')
        xs.append('  </objects>')
    for i, a in d['attackers'].items():
        k += 1
        xs.append(f'  <objects description="" id="{int(i)}" name={quoteattr(a["name"])} metaConcept="Attacker" template="false" exportedId="{k}">'
                  '<evidenceAttributes metaConcept="EntryPoint"/></objects>')
    n = 0
    for e in d['associations']:
        cls = next(kk for kk in e if kk != 'extras')
        (f1, m1), (f2, m2) = list(e[cls].items())
        for x in m1:
            for y in m2:
                n += 1
                # the asset that sits in field f1 is the targetObject when f1 is the sourceProperty
                if (n + flip) % 2:
                    xs.append(f'  <associations description="" sourceObject="{int(y)}" targetObject="{int(x)}" id="{n}" '
                              f'sourceProperty="{f1}" targetProperty="{f2}"/>')
                else:
                    xs.append(f'  <associations description="" sourceObject="{int(x)}" targetObject="{int(y)}" id="{n}" '
                              f'sourceProperty="{f2}" targetProperty="{f1}"/>')
    for i, a in d['attackers'].items():
        for asset_id, ep in a['entry_points'].items():
            for s in ep['attack_steps']:
                n += 1
                if (n + flip) % 2:
                    xs.append(f'  <associations description="" sourceObject="{int(i)}" targetObject="{int(asset_id)}" id="{n}" '
                              f'sourceProperty="firstSteps" targetProperty="{s}.attacker"/>')
                else:
                    xs.append(f'  <associations description="" sourceObject="{int(asset_id)}" targetObject="{int(i)}" id="{n}" '
                              f'sourceProperty="{s}.attacker" targetProperty="firstSteps"/>')
    xs.append('</com.foreseeti.kernalCAD:XMIObjectModel>')
    with zipfile.ZipFile(path, 'w') as z:
        z.writestr('model.eom', '\n'.join(xs))
        z.writestr('meta.json', '{}')


# --------------------------------------------------------------------------- check one model

def check_model(fx, sp, m, case, stats):
    from maltoolbox.model import Model
    from maltoolbox.translators import securicad, updater
    viols = []

    def V(key, what, **kw):
        viols.append(common.Violation(key, what, case=case, **kw).to_json())
    d = json.loads(json.dumps(m._to_dict(), default=c07._lit))
    p = sandbox.tmpfile('.json')
    m.save_to_file(p)
    want = normal_form(Model.load_from_file(p, fx.factory))
    for fmt, inline in (('json', False), ('yml', False), ('json', True)):
        legacy = emit_0_0_39(d, inline)
        lp = sandbox.tmpfile('.' + fmt)
        with open(lp, 'w', encoding='utf-8') as f:
            if fmt == 'json':
                json.dump(legacy, f)
            else:
                yaml.safe_dump(legacy, f, sort_keys=False, allow_unicode=True)
        stats['legacy_loads'] = stats.get('legacy_loads', 0) + 1
        try:
            got = normal_form(updater.load_model_from_older_version(lp, fx.factory, '0.0.39'))
        except Exception as e:  # noqa: BLE001
            V(f'legacy_0_0_39_load_raised:{type(e).__name__}', f'0.0.39 {fmt} file does not load: {str(e)[:200]}')
            continue
        for part in ('assets', 'links', 'entry_points', 'attacker_ids'):
            if got[part] != want[part]:
                V(f'legacy_0_0_39_differs:{part}', f'0.0.39 {fmt} load differs from the native load in {part}',
                  expected=want[part], observed=got[part])
                break
    for flip in (0, 1):
        sc = sandbox.tmpfile('.sCAD')
        emit_scad(d, sp, sc, flip)
        stats['legacy_loads'] = stats.get('legacy_loads', 0) + 1
        try:
            lm = securicad.load_model_from_scad_archive(sc, fx.lang_graph, fx.factory)
            if lm is None:
                raise LookupError('loader returned None')
            got = normal_form(lm)
        except Exception as e:  # noqa: BLE001
            subtype_dup = _has_subtype_dupname_link(fx, sp, m)
            V(f'scad_load_raised:{type(e).__name__}' + (':dupname_assoc_between_subtypes' if subtype_dup else ''),
              f'.sCAD archive does not load: {str(e)[:200]}')
            continue
        for part in ('assets', 'links', 'entry_points', 'attacker_ids'):
            if got[part] != want[part]:
                multi = any(len(s) > 1 for t in m.attackers for _a, s in t.entry_points)
                V(f'scad_differs:{part}' + (':several_steps_on_one_asset' if part == 'entry_points' and multi else ''),
                  f'.sCAD load differs from the native load in {part}', expected=want[part], observed=got[part])
                break
    return viols


def _has_subtype_dupname_link(fx, sp, m):
    names = [a['name'] for a in sp['associations']]
    for x in m.associations:
        cls = type(x).__name__
        if '_' in cls and names.count(cls.split('_')[0]) > 1:
            return True
    return False


@common.job
def _job(job):
    kind, items = job
    stats, viols = {}, []
    if kind == 'hist':
        lname, hists = items
        sp = c07.lang_spec(lname)
        system = engine_hist._system(c07.make_system, (lname,))
        for hist in hists:
            c = engine_hist.replay(system, hist)
            viols += check_model(system.fx, sp, c.model, {'source': 'history', 'language': lname, 'history': [list(h) for h in hist]}, stats)
            stats['models'] = stats.get('models', 0) + 1
    elif kind == 'extra':
        from .. import modelgen
        for k, item in enumerate(c07.extra_plain_models()):
            lname, pm, defs = item[0], item[1], (item[2] if len(item) > 2 else None)
            sp = c07.lang_spec(lname)
            fx = langs.fixture(sp)
            m, objs = modelgen.build(fx, pm, defenses=defs)
            from maltoolbox.model import AttackerAttachment
            at = AttackerAttachment()
            m.add_attacker(at)
            first = pm.assets[0][0]
            for st in list(inherit.resolve(sp, pm.types[first]))[:2]:
                at.add_entry_point(objs[first], st)
            viols += check_model(fx, sp, m, {'source': 'extra', 'index': k, 'language': lname, 'model': pm.describe()}, stats)
            stats['models'] = stats.get('models', 0) + 1
    else:
        sp = families.ops_lang()
        fx = langs.fixture(sp)
        for dsc in items:
            m = c07.build_decorated(fx, dict(dsc, extras=False))
            viols += check_model(fx, sp, m, {'source': 'decorated', 'model': dsc}, stats)
            stats['models'] = stats.get('models', 0) + 1
    return stats, viols[:40]


def distinct_histories(lname, depth, K, scratch, seed):
    reps = engine_hist.explore(c07.make_system, (lname,), depth, K, scratch, seed, label=f'[{lname},D{depth},K{K}]')
    system = engine_hist._system(c07.make_system, (lname,))
    sp = c07.lang_spec(lname)
    by_content = {}
    for k in sorted(reps):
        hist = reps[k][0]
        if not hist:
            continue
        c = engine_hist.replay(system, hist)
        if not c.model.assets:
            continue
        key = json.dumps(c07.content(c.model, sp), sort_keys=True, default=repr)
        if key not in by_content or len(hist) < len(by_content[key]):
            by_content[key] = hist
    return common.rotate([by_content[k] for k in sorted(by_content)], seed)


def run(tier, seed):
    res = common.Result(PROP, tier, seed, 'model_checking')
    res.rule = ('every distinct model content reached by the bounded history search (ids with gaps / zero / negative / explicit, '
                'multi-member associations, duplicate-named association classes incl. links between subtypes, several attackers '
                'with several entry points per asset) plus the decorated model family is emitted in the 0.0.39 layout (json, yaml, '
                'inline association fields) and as .sCAD (both orientations of every association element) and loaded through the '
                'legacy loaders; normal form (assets with defenses, pairwise links, entry points) must equal the native load')
    depth, K = (4, 1) if tier == 'quick' else (5, 1)
    scratch = common.Result(PROP, tier, seed, 'model_checking')
    hists = distinct_histories('OPS', depth, K, scratch, seed)
    jobs = [('hist', ('OPS', hists[i:i + 16])) for i in range(0, len(hists), 16)]
    h2 = distinct_histories('OPS2', depth - 1, 0, scratch, seed)
    jobs += [('hist', ('OPS2', h2[i:i + 16])) for i in range(0, len(h2), 16)]
    jobs.append(('extra', None))
    hists = hists + h2
    dm = [d for d in c07.decorated_models() if not d['extras']]
    jobs += [('deco', dm[i:i + 4]) for i in range(0, len(dm), 4)]
    for stats, viols in common.pmap(_job, jobs):
        res.merge_counts(stats)
        res.add_violations(viols)
    res.bounds = dict(scratch.bounds)
    res.bounds.update({'distinct_model_contents': len(hists), 'decorated_models': len(dm)})
    res.sample({'history': hists[-1] if hists else None})
    c = res.counters
    c['states'] = c.get('models', 0)
    c['transitions'] = c.get('legacy_loads', 0)
    c['traces_validated_against_impl'] = c.get('legacy_loads', 0)
    c['evaluations'] = c.get('legacy_loads', 0)
    c['distinct_nontrivial'] = c.get('models', 0)
    return res.finish()


def replay(path):
    j = json.load(open(path))
    c = j['case']
    sp = families.ops_lang()
    if c['source'] == 'history':
        lname = c.get('language', 'OPS')
        sp = c07.lang_spec(lname)
        system = c07.make_system((lname,))
        hist = tuple(tuple(c07._t(x) for x in op) for op in c['history'])
        ctx = engine_hist.replay(system, hist)
        vs = check_model(system.fx, sp, ctx.model, c, {})
    elif c['source'] == 'extra':
        stats, vs = _job(('extra', None))
    else:
        fx = langs.fixture(sp)
        d = dict(c['model'])
        d['types'] = tuple(d['types'])
        vs = check_model(fx, sp, c07.build_decorated(fx, d), c, {})
    for v in vs:
        print('reproduced:', v['key'], v['what'])
    if vs:
        print(f'VIOLATION property={PROP} replay={path}')
        return 1
    print('not reproduced')
    return 0
