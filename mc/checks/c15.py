"""C15 - language graph mirrors the language and over-approximates every attack graph (engine E)."""
import copy
import itertools
import json
import os

from .. import common, families, langs, modelgen, sandbox
from ..refs import inherit, sem
from . import c01

PROP = 'C15'


# --------------------------------------------------------------------------- structural oracle

def check_language(sp, name, stats, typed_links=True):
    from maltoolbox.language import LanguageGraph
    viols = []
    case = {'language': name}

    def V(key, what, **kw):
        viols.append(common.Violation(key, what, case=case, **kw))
    try:
        lg = LanguageGraph(copy.deepcopy(sp))
    except Exception as e:  # noqa: BLE001
        V(f'wellformed_language_rejected:{type(e).__name__}', f'LanguageGraph raised on a well-formed language: {str(e)[:300]}')
        return viols, None
    L = sem.Lang(sp)
    stats['languages'] = stats.get('languages', 0) + 1
    decl = [a['name'] for a in sp['assets']]
    got = [a.name for a in lg.assets]
    if sorted(got) != sorted(decl):
        V('asset_set', 'language graph assets differ from the declared assets', expected=sorted(decl), observed=sorted(got))
        return viols, lg
    by = {a.name: a for a in lg.assets}
    for a in sp['assets']:
        t = a['name']
        la = by[t]
        want_sup = [a['superAsset']] if a['superAsset'] else []
        if [x.name for x in la.super_assets] != want_sup:
            V('super_assets', f'{t}.super_assets', expected=want_sup, observed=[x.name for x in la.super_assets])
        want_sub = sorted(x['name'] for x in sp['assets'] if x['superAsset'] == t)
        if sorted(x.name for x in la.sub_assets) != want_sub:
            V('sub_assets', f'{t}.sub_assets', expected=want_sub, observed=sorted(x.name for x in la.sub_assets))
        if {x.name for x in la.get_all_superassets()} != set(L.anc[t]):
            V('all_superassets', f'{t}.get_all_superassets()', expected=L.anc[t], observed=[x.name for x in la.get_all_superassets()])
        if {x.name for x in la.get_all_subassets()} != set(L.subtypes(t)):
            V('all_subassets', f'{t}.get_all_subassets()', expected=L.subtypes(t), observed=[x.name for x in la.get_all_subassets()])
        for u in decl:
            stats['subtype_queries'] = stats.get('subtype_queries', 0) + 1
            if bool(la.is_subasset_of(by[u])) != L.is_sub(t, u):
                V('is_subasset_of', f'{t}.is_subasset_of({u})', expected=L.is_sub(t, u), observed=la.is_subasset_of(by[u]))
        want_assocs = sorted((x['name'], x['leftField'], x['rightField']) for x in sp['associations']
                             if L.is_sub(t, x['leftAsset']) or L.is_sub(t, x['rightAsset']))
        got_assocs = sorted((x.name, x.left_field.fieldname, x.right_field.fieldname) for x in la.associations)
        if got_assocs != want_assocs:
            V('asset_associations', f'{t}.associations is not the associations of {t} and its ancestors',
              expected=want_assocs, observed=got_assocs)
        # exposed steps
        want_steps = sorted(inherit.resolve(sp, t))
        if sorted(s.name for s in la.attack_steps) != want_steps:
            V('asset_steps', f'{t}.attack_steps', expected=want_steps, observed=sorted(s.name for s in la.attack_steps))
    want_all = sorted((x['name'], x['leftAsset'], x['leftField'], x['rightField'], x['rightAsset']) for x in sp['associations'])
    got_all = sorted((x.name, x.left_field.asset.name, x.left_field.fieldname, x.right_field.fieldname, x.right_field.asset.name)
                     for x in lg.associations)
    if got_all != want_all:
        V('association_set', 'language graph associations differ from the declared ones', expected=want_all, observed=got_all)
    for x in lg.associations:
        d = next((y for y in sp['associations'] if (y['name'], y['leftAsset'], y['leftField'], y['rightField'], y['rightAsset']) ==
                  (x.name, x.left_field.asset.name, x.left_field.fieldname, x.right_field.fieldname, x.right_field.asset.name)), None)
        if d and (x.left_field.minimum, x.left_field.maximum, x.right_field.minimum, x.right_field.maximum) != \
                (d['leftMultiplicity']['min'], d['leftMultiplicity']['max'], d['rightMultiplicity']['min'], d['rightMultiplicity']['max']):
            V('association_multiplicity', f'{x.name}: multiplicities differ from the declaration')
    # lookup by fields and asset types: every quadruple, both orientations
    fields = sorted({x['leftField'] for x in sp['associations']} | {x['rightField'] for x in sp['associations']})
    if len(fields) <= 16:
        for f1, f2 in itertools.product(fields, repeat=2):
            for t1, t2 in itertools.product(decl, repeat=2):
                matches = [x for x in sp['associations']
                           if (x['leftField'] == f1 and x['rightField'] == f2 and L.is_sub(t1, x['leftAsset']) and L.is_sub(t2, x['rightAsset']))
                           or (x['leftField'] == f2 and x['rightField'] == f1 and L.is_sub(t2, x['leftAsset']) and L.is_sub(t1, x['rightAsset']))]
                stats['assoc_lookups'] = stats.get('assoc_lookups', 0) + 1
                try:
                    r = lg.get_association_by_fields_and_assets(f1, f2, t1, t2)
                except Exception as e:  # noqa: BLE001
                    V(f'assoc_lookup_raised:{type(e).__name__}', f'lookup ({f1},{f2},{t1},{t2}) raised')
                    continue
                if r is None:
                    if matches:
                        V('assoc_lookup_missed', f'lookup ({f1},{f2},{t1},{t2}) found nothing', expected=[m['name'] for m in matches])
                else:
                    sig = (r.name, r.left_field.asset.name, r.left_field.fieldname, r.right_field.fieldname, r.right_field.asset.name)
                    if sig not in [(m['name'], m['leftAsset'], m['leftField'], m['rightField'], m['rightAsset']) for m in matches]:
                        V('assoc_lookup_wrong', f'lookup ({f1},{f2},{t1},{t2}) returned a non-matching association', observed=list(sig))
    # step-to-step links: mirrored, and (for typed languages) exactly the statically typed targets
    steps = {(s.asset.name, s.name): s for s in lg.attack_steps}
    if len(steps) != len(lg.attack_steps):
        V('duplicate_step_nodes', 'two language-graph steps share (asset, name)')
    for (t, sn), s in steps.items():
        for key, entries in s.children.items():
            for tgt, _chain in entries:
                stats['links'] = stats.get('links', 0) + 1
                if tgt.name != key:
                    V('child_key', f'{t}:{sn}.children[{key}] holds step {tgt.name}')
                if not any(src is s for src, _c in tgt.parents.get(sn, [])):
                    V('link_not_mirrored:child_without_parent', f'{t}:{sn} -> {tgt.asset.name}:{tgt.name} is not in the target\'s parents')
                if steps.get((tgt.asset.name, tgt.name)) is not tgt:
                    V('link_target_not_in_graph', f'{t}:{sn} links to a step object that is not in the language graph')
        for key, entries in s.parents.items():
            for src, _chain in entries:
                if not any(tg is s for tg, _c in src.children.get(sn, [])):
                    V('link_not_mirrored:parent_without_child', f'{src.asset.name}:{src.name} -> {t}:{sn} is not in the source\'s children')
        if typed_links:
            want = set()
            for e in inherit.resolve(sp, t)[sn]['reaches']:
                if e['type'] == 'attackStep':
                    want.add((t, e['name']))
                else:
                    u = L.type_of(e['lhs'], t)
                    want.add((u, e['rhs']['name']))
            got_l = {(tgt.asset.name, tgt.name) for entries in s.children.values() for tgt, _c in entries}
            if got_l != want:
                V('step_links', f'{t}:{sn} links differ from the statically typed targets of its reaches expressions',
                  expected=sorted(map(str, want)), observed=sorted(map(str, got_l)))
    return viols, lg


# --------------------------------------------------------------------------- ill-formed variants

def dangling_variants(sp):
    """every single reference replaced by an unknown name -> list of (what, spec)"""
    out = []
    for i, a in enumerate(sp['assets']):
        if a['superAsset']:
            s2 = copy.deepcopy(sp)
            s2['assets'][i]['superAsset'] = 'Nope'
            out.append((f'super_asset:{a["name"]}', s2))
    for i, x in enumerate(sp['associations']):
        for ends in (('leftAsset',), ('rightAsset',), ('leftAsset', 'rightAsset')):
            s2 = copy.deepcopy(sp)
            for e in ends:
                s2['associations'][i][e] = 'Nope'
            out.append((f'association_end:{"+".join(ends)}:{x["name"]}', s2))

    def expr_sites(e, path=()):
        """paths to every field / attackStep / variable / subType reference in e"""
        k = e['type']
        if k in ('field', 'attackStep', 'variable'):
            yield path, k
        if k == 'subType':
            yield path, 'subType'
        for key in ('lhs', 'rhs', 'stepExpression'):
            if key in e:
                yield from expr_sites(e[key], path + (key,))

    def set_at(e, path, kind):
        x = e
        for k in path:
            x = x[k]
        if kind == 'subType':
            x['subType'] = 'Nope'
        else:
            x['name'] = 'nope'
    used_vars = set()
    for i, a in enumerate(sp['assets']):
        for j, s in enumerate(a['attackSteps']):
            if not s['reaches']:
                continue
            for k, e in enumerate(s['reaches']['stepExpressions']):
                for path, kind in expr_sites(e):
                    s2 = copy.deepcopy(sp)
                    set_at(s2['assets'][i]['attackSteps'][j]['reaches']['stepExpressions'][k], path, kind)
                    out.append((f'reaches:{kind}:{a["name"]}.{s["name"]}', s2))
                    if kind == 'variable':
                        x = e
                        for p in path:
                            x = x[p]
                        used_vars.add(x['name'])
    for i, a in enumerate(sp['assets']):
        for j, v in enumerate(a['variables']):
            if v['name'] not in used_vars:
                continue
            for path, kind in expr_sites(v['stepExpression']):
                s2 = copy.deepcopy(sp)
                set_at(s2['assets'][i]['variables'][j]['stepExpression'], path, kind)
                out.append((f'used_variable_body:{kind}:{a["name"]}.{v["name"]}', s2))
    return out


@common.job
def job_dangling(job):
    name, sp = job
    from maltoolbox.language import LanguageGraph
    stats, viols = {}, []
    for what, s2 in dangling_variants(sp):
        stats['illformed_variants'] = stats.get('illformed_variants', 0) + 1
        try:
            LanguageGraph(s2)
        except RecursionError:
            raise
        except Exception:  # noqa: BLE001  any error report counts
            stats['illformed_rejected'] = stats.get('illformed_rejected', 0) + 1
            continue
        kind = what.split(':')[0] + ':' + what.split(':')[1]
        viols.append(common.Violation(f'dangling_reference_accepted:{kind}', f'language with an unknown reference ({what}) was accepted',
                                      case={'language': name, 'variant': what}).to_json())
    return stats, viols


# --------------------------------------------------------------------------- jobs

def base_languages():
    out = {'OPS': families.ops_lang(), 'OPS2': families.ops2_lang()}
    out.update({'CLS:' + k: v for k, v in families.cls_langs().items()})
    shapes = families.inh_shapes(False)
    for i in (5, 40, 90, 140, 168):
        out[f'INH:{i}'] = families.inh_lang(shapes[i % len(shapes)])
    from ..refgraph import gops_lang, gops2_lang
    out.update(families.fr_variants())
    # both ends of an association use the SAME field name, between unrelated types (and between a type and
    # a subtype of the other end): lookups must answer in both orientations
    out['samefield'] = langs.spec([
        langs.asset('Machine', steps=[langs.step('use', 'or', reaches=[langs.COL(langs.F('peers'), langs.S('serve'))])]),
        langs.asset('Laptop', sup='Machine'),
        langs.asset('Service', steps=[langs.step('serve', 'or', reaches=[langs.COL(langs.F('peers'), langs.S('use'))])]),
        langs.asset('Daemon', sup='Service'),
    ], [langs.assoc('Link', 'Machine', 'peers', '*', '*', 'peers', 'Service'),
        langs.assoc('Back', 'Service', 'owners', '0..1', '*', 'owned', 'Machine')], lang_id='org.verif.samefield')
    out['GOPS'] = gops_lang()
    out['GOPS2'] = gops2_lang()
    out['SEM:base'] = families.sem_lang([langs.step('s0', 'or', reaches=[langs.COL(langs.UNI(langs.F('rights'), langs.V('vdown')), langs.S('t'))]),
                                          langs.step('s1', 'or', reaches=[langs.COL(langs.SUB('Bb', langs.TRA(langs.F('down'))), langs.S('t'))])])
    return out


@common.job
def job_struct(job):
    kind, arg = job
    stats, viols = {}, []
    if kind == 'named':
        name, sp = arg
        vs, _ = check_language(sp, name, stats)
    elif kind == 'mar':
        sp = langs.mar_spec(os.path.join(sandbox.TESTDATA, arg))
        vs, _ = check_language(sp, arg, stats, typed_links=True)
    elif kind == 'semchunk':
        plan, ci = arg
        chunks, _models = c01._plan_data(plan)
        sp = c01.chunk_spec(*chunks[ci])
        vs, _ = check_language(sp, f'SEM chunk {ci}', stats)
    elif kind == 'inh':
        shape, depth4 = arg
        sp = families.inh_lang(shape, depth4=depth4)
        vs, _ = check_language(sp, f'INH {shape}', stats)
    return stats, [v.to_json() for v in vs[:20]]


@common.job
def job_edges(job):
    """every attack-graph edge is predicted by a language-graph link"""
    plan, ci, lo, hi = job
    from maltoolbox.attackgraph import AttackGraph
    chunks, models = c01._plan_data(plan)
    sp = c01.chunk_spec(*chunks[ci])
    fx = langs.fixture(sp, key=('C15', plan, ci))
    L = sem.Lang(sp)
    lsteps = {(s.asset.name, s.name): s for s in fx.lang_graph.attack_steps}
    stats, viols = {}, []
    for pm in models[lo:hi]:
        if not chunks[ci][1] and not any(t in ('Aa', 'Bb') for _n, t in pm.assets):
            continue
        m, _objs = modelgen.build(fx, pm)
        try:
            g = AttackGraph(fx.lang_graph, m)
        except Exception:  # noqa: BLE001  generation failures are C01's business
            stats['generation_failed'] = stats.get('generation_failed', 0) + 1
            continue
        stats['graphs'] = stats.get('graphs', 0) + 1
        for n in g.nodes:
            src = lsteps.get((str(n.asset.type), n.name))
            for ch in n.children:
                stats['edges'] = stats.get('edges', 0) + 1
                ok = False
                if src is not None:
                    for tgt, _chain in src.children.get(ch.name, []):
                        if L.is_sub(str(ch.asset.type), tgt.asset.name):
                            ok = True
                if not ok:
                    viols.append(common.Violation(
                        'edge_not_predicted', f'attack-graph edge {n.full_name} -> {ch.full_name} has no language-graph link',
                        case={'model': pm.describe(), 'step': n.name,
                              'exprs': [sem.show(e) for e in inherit.resolve(sp, str(n.asset.type))[n.name]['reaches']]}).to_json())
                    break
            if len(viols) > 10:
                return stats, viols
    return stats, viols


@common.job
def job_inh_edges(job):
    """edge prediction over the inheritance family: one asset of every type, fully linked"""
    shapes, depth4 = job
    from maltoolbox.attackgraph import AttackGraph
    from maltoolbox.model import Model
    stats, viols = {}, []
    for shape in shapes:
        sp = families.inh_lang(shape, depth4=depth4)
        fx = langs.fixture(sp)
        L = sem.Lang(sp)
        lsteps = {(s.asset.name, s.name): s for s in fx.lang_graph.attack_steps}
        m = Model('m', fx.factory)
        objs = [getattr(fx.ns, a['name'])(name='x' + a['name']) for a in sp['assets']]
        for o in objs:
            m.add_asset(o)
        g = AttackGraph(fx.lang_graph, m)
        g2 = AttackGraph(fx.lang_graph, m)          # (a second generation on the same language graph)
        stats['graphs'] = stats.get('graphs', 0) + 2
        for gg in (g, g2):
            for n in gg.nodes:
                src = lsteps.get((str(n.asset.type), n.name))
                for ch in n.children:
                    stats['edges'] = stats.get('edges', 0) + 1
                    if not any(L.is_sub(str(ch.asset.type), tgt.asset.name) for tgt, _c in (src.children.get(ch.name, []) if src else [])):
                        viols.append(common.Violation('edge_not_predicted:inheritance_family',
                                                      f'attack-graph edge {n.full_name} -> {ch.full_name} has no language-graph link',
                                                      case={'shape': shape}).to_json())
                        break
        if len(viols) > 5:
            break
    return stats, viols


def _dispatch(job):
    k = job[0]
    if k == 'inh_edges':
        return job_inh_edges(job[1])
    if k == 'dangling':
        return job_dangling(job[1])
    if k == 'edges':
        return job_edges(job[1])
    return job_struct(job[1])


def run(tier, seed):
    res = common.Result(PROP, tier, seed, 'exploration')
    res.rule = ('languages: every SEM expression chunk (all well-typed expressions up to the operator bound as reaches of generated '
                'steps), every INH shape, the CLS / OPS / GOPS languages and both shipped .mar; for each: assets, super/sub links, '
                'subtype closure for every pair, per-asset associations, association lookup for EVERY (field, field, type, type) '
                'quadruple, exposed steps, step links = statically typed targets, links mirrored. Ill-formed variants: every single '
                'reference (super asset, association end(s), field / step / variable / subtype inside a reaches expression or a '
                'used variable) replaced by an unknown name must be reported. Every attack-graph edge over the C01 model space '
                'must be predicted by a language-graph link')
    plan2 = (2, None, 3, 2, False, False) if tier == 'thorough' else (2, c01.QUICK_ATOMS, 3, 2, False, False)
    plan1 = (1, None, 3, 2, True, True)
    jobs = []
    for name, sp in base_languages().items():
        jobs.append(('struct', ('named', (name, sp))))
        jobs.append(('dangling', (name, sp)))
    for f in ('org.mal-lang.coreLang-1.0.0.mar', 'corelang-union-common-ancestor.mar'):
        jobs.append(('struct', ('mar', f)))
    jobs.append(('dangling', ('coreLang', langs.mar_spec(os.path.join(sandbox.TESTDATA, 'org.mal-lang.coreLang-1.0.0.mar')))))
    for sh in families.inh_shapes(False):
        jobs.append(('struct', ('inh', (sh, False))))
    if tier == 'thorough':
        for sh in families.inh_shapes(True)[::7]:
            jobs.append(('struct', ('inh', (sh, True))))
    for plan in (plan1, plan2):
        chunks, models = c01._plan_data(plan)
        for ci in range(len(chunks)):
            jobs.append(('struct', ('semchunk', (plan, ci))))
    # edges: 1-op expressions over the single-member model space, 2-op expressions over N<=2
    eplan = (1, None, 3, 2, False, False)
    chunks, models = c01._plan_data(eplan)
    per = max(1, len(models) // 24 + 1)
    for ci in range(len(chunks)):
        for lo in range(0, len(models), per):
            jobs.append(('edges', (eplan, ci, lo, lo + per)))
    eplan2 = (2, c01.QUICK_ATOMS, 2, 2, True, False)
    chunks, models = c01._plan_data(eplan2)
    for ci in range(len(chunks)):
        jobs.append(('edges', (eplan2, ci, 0, len(models))))
    shapes = families.inh_shapes(False)
    for i in range(0, len(shapes), 12):
        jobs.append(('inh_edges', (shapes[i:i + 12], False)))
    jobs = common.rotate(jobs, seed)
    for stats, viols in common.pmap(_dispatch, jobs):
        res.merge_counts(stats)
        res.add_violations(viols)
    res.sample({'ill_formed_variant': 'association_end:leftAsset+rightAsset:Peer', 'lookup': ['peers', 'peersOf', 'Host', 'Node']})
    c = res.counters
    c['evaluations'] = c.get('subtype_queries', 0) + c.get('assoc_lookups', 0) + c.get('links', 0) + \
        c.get('illformed_variants', 0) + c.get('edges', 0)
    c['distinct_nontrivial'] = c.get('languages', 0) + c.get('illformed_variants', 0) + c.get('graphs', 0)
    return res.finish()


def replay(path):
    import sys
    return common.rerun(PROP, path, sys.modules[__name__])
