"""C12 - attack-surface queries follow their definition; incremental = recomputed (engine E x H)."""
import itertools
import json

from .. import common, refgraph

PROP = 'C12'
LABELS = [(True, True), (False, True), (True, False), (False, False)]
KINDS = [(t, l, None, ()) for t in ('or', 'and') for l in LABELS] + \
        [('defense', (True, True), st, tags) for st in (0.0, 0.5, 1.0) for tags in ((), ('suppress',))] + \
        [('defense', (True, False), 0.0, ())]
# n = 3: all or/and label combinations, a necessary and an unnecessary (disabled) defense parent, one suppressed enabled defense
KINDS3 = [k for k in KINDS if k[0] != 'defense'] + [('defense', (True, True), 0.0, ()), ('defense', (True, False), 0.0, ()),
                                                   ('defense', (False, True), 1.0, ('suppress',))]
KINDS_SMALL = [('or', (True, True), None, ()), ('or', (False, True), None, ()), ('and', (True, True), None, ()),
               ('and', (True, False), None, ()), ('defense', (True, True), 0.0, ())]


def build(kinds, edges):
    from maltoolbox.attackgraph import AttackGraph, AttackGraphNode, Attacker
    g = AttackGraph()
    nodes = []
    for i, (t, (v, nec), st, tags) in enumerate(kinds):
        n = AttackGraphNode(type=t, name=f'n{i}', ttc=None, is_viable=v, is_necessary=nec, tags=list(tags))
        if t == 'defense':
            n.defense_status = st
        g.add_node(n)
        nodes.append(n)
    for a, b in edges:
        nodes[a].children.append(nodes[b])
        nodes[b].parents.append(nodes[a])
    atts = []
    for k in range(2):
        a = Attacker(name=f'att{k}', entry_points=[], reached_attack_steps=[])
        g.add_attacker(a)
        atts.append(a)
    return g, nodes, atts


def ref_traversable(kinds, parents, reached, i):
    t, (v, _nec), _st, _tags = kinds[i]
    if not v:
        return False
    if t == 'or':
        return True
    if t == 'and':
        return all(p in reached for p in parents[i] if kinds[p][1][1])
    return False


def ref_surface(kinds, children, parents, reached):
    return {c for r in reached for c in children[r] if ref_traversable(kinds, parents, reached, c)}


def check(kinds, edges, seq, stats):
    from maltoolbox.attackgraph import query
    n = len(kinds)
    g, nodes, (A, B) = build(kinds, edges)
    children = [[b for a, b in edges if a == i] for i in range(n)]
    parents = [[a for a, b in edges if b == i] for i in range(n)]
    case = {'kinds': kinds, 'edges': edges, 'compromise_sequence': list(seq)}
    B.compromise(nodes[0])            # another attacker's compromise must never count for A
    reached = set()
    surface = None
    idx = {id(x): i for i, x in enumerate(nodes)}

    def V(key, what, **kw):
        return common.Violation(key, what, case=case, **kw)
    for step in [None] + list(seq):
        newly = []
        if step is not None:
            A.compromise(nodes[step])
            if step not in reached:
                newly = [nodes[step]]
            reached.add(step)
        before = refgraph.observe(g)
        for i in range(n):
            got = query.is_node_traversable_by_attacker(nodes[i], A)
            want = ref_traversable(kinds, parents, reached, i)
            stats['queries'] = stats.get('queries', 0) + 1
            if got is not want and got != want:
                return V(f'traversable_wrong:{kinds[i][0]}', f'is_node_traversable_by_attacker(n{i}) is {got}', expected=want, observed=got)
        full = query.get_attack_surface(A)
        want = ref_surface(kinds, children, parents, reached)
        got = [idx.get(id(x), -1) for x in full]
        stats['queries'] += 1
        if len(set(got)) != len(got):
            return V('surface_has_duplicates', 'get_attack_surface returns a node twice', observed=got)
        if set(got) != want:
            return V('surface_wrong', 'get_attack_surface differs from the traversable children of reached steps',
                     expected=sorted(want), observed=sorted(got))
        if want:
            stats['nontrivial'] = stats.get('nontrivial', 0) + 1
        if surface is not None:
            inc = query.update_attack_surface_add_nodes(A, list(surface), newly)
            goti = [idx.get(id(x), -1) for x in inc]
            stats['queries'] += 1
            if len(set(goti)) != len(goti):
                return V('incremental_has_duplicates', 'update_attack_surface_add_nodes returns a node twice', observed=goti)
            if set(goti) != want:
                return V('incremental_differs_from_recomputed', 'incrementally updated surface differs from the recomputed one',
                         expected=sorted(want), observed=sorted(goti))
            if newly and len(surface) == len(newly) and all(any(x is y for y in newly) for x in surface):
                # every node of the previous surface was compromised: a caller may hand the surface itself
                # over as the list of newly compromised nodes (one list object in both roles)
                both = list(surface)
                inc2 = query.update_attack_surface_add_nodes(A, both, both)
                goti2 = {idx.get(id(x), -1) for x in inc2}
                stats['queries'] += 1
                if goti2 != want:
                    return V('incremental_differs_from_recomputed:aliased_arguments',
                             'incrementally updated surface differs from the recomputed one when the surface list is also passed as the new nodes',
                             expected=sorted(want), observed=sorted(goti2))
        surface = full
        ds = {idx.get(id(x), -1) for x in query.get_defense_surface(g)}
        en = {idx.get(id(x), -1) for x in query.get_enabled_defenses(g)}
        wds = {i for i, k in enumerate(kinds) if k[0] == 'defense' and 'suppress' not in k[3] and k[2] != 1.0}
        wen = {i for i, k in enumerate(kinds) if k[0] == 'defense' and 'suppress' not in k[3] and k[2] == 1.0}
        stats['queries'] += 2
        if ds != wds:
            return V('defense_surface_wrong', 'get_defense_surface is not the non-suppressed, not fully enabled defenses',
                     expected=sorted(wds), observed=sorted(ds))
        if en != wen:
            return V('enabled_defenses_wrong', 'get_enabled_defenses is not the non-suppressed fully enabled defenses',
                     expected=sorted(wen), observed=sorted(en))
        if refgraph.observe(g) != before:
            return V('query_changed_graph', 'a query modified the graph')
    # the queries must follow the CURRENT state of the graph: edit tags / statuses / flags after the queries
    # have already been asked once (an answer remembered inside the nodes would now be stale)
    kinds = [list(k) for k in kinds]
    for i, node in enumerate(nodes if len(seq) <= 1 else []):     # (after the empty and the one-step sequences)
        t = kinds[i][0]
        edits = []
        if t == 'defense':
            def flip_tag(node=node, i=i):
                if 'suppress' in node.tags:
                    node.tags.remove('suppress')
                else:
                    node.tags.append('suppress')
                kinds[i][3] = tuple(node.tags)

            def reassign_tags(node=node, i=i):
                node.tags = [] if 'suppress' in node.tags else ['x', 'suppress']
                kinds[i][3] = tuple(node.tags)

            def flip_status(node=node, i=i):
                node.defense_status = 0.0 if node.defense_status == 1.0 else 1.0
                kinds[i][2] = node.defense_status
            edits = [('tags_in_place', flip_tag), ('tags_assigned', reassign_tags), ('status', flip_status)]
        else:
            def flip_viable(node=node, i=i):
                node.is_viable = not node.is_viable
                kinds[i][1] = (node.is_viable, node.is_necessary)

            def flip_necessary(node=node, i=i):
                node.is_necessary = not node.is_necessary
                kinds[i][1] = (node.is_viable, node.is_necessary)
            edits = [('viable', flip_viable), ('necessary', flip_necessary)]
        for what, edit in edits:
            edit()
            kk = [tuple(k) for k in kinds]
            ds = {idx.get(id(x), -1) for x in query.get_defense_surface(g)}
            en = {idx.get(id(x), -1) for x in query.get_enabled_defenses(g)}
            wds = {j for j, k in enumerate(kk) if k[0] == 'defense' and 'suppress' not in k[3] and k[2] != 1.0}
            wen = {j for j, k in enumerate(kk) if k[0] == 'defense' and 'suppress' not in k[3] and k[2] == 1.0}
            stats['queries'] += 2
            if ds != wds or en != wen:
                return V(f'stale_after_edit:{what}:defense_queries', f'defense surface / enabled defenses ignore an edit of {what} made after an earlier query',
                         expected=[sorted(wds), sorted(wen)], observed=[sorted(ds), sorted(en)])
            got = {idx.get(id(x), -1) for x in query.get_attack_surface(A)}
            want = ref_surface(kk, children, parents, reached)
            stats['queries'] += 1
            if got != want:
                return V(f'stale_after_edit:{what}:attack_surface', f'attack surface ignores an edit of {what} made after an earlier query',
                         expected=sorted(want), observed=sorted(got))
    stats['executions'] = stats.get('executions', 0) + 1
    return None


def sequences(n, maxlen):
    out = [()]
    for l in range(1, maxlen + 1):
        out += list(itertools.product(range(n), repeat=l))
    return out


@common.job
def _job(job):
    kinds, n, maxlen, noself = job
    kinds = [tuple(k) for k in kinds]
    stats, viols = {}, []
    pairs = [(a, b) for a in range(n) for b in range(n) if not (noself and a == b)]
    seqs = sequences(n, maxlen)
    for m in range(1 << len(pairs)):
        edges = [p for k, p in enumerate(pairs) if m >> k & 1]
        for seq in seqs:
            v = check(kinds, edges, seq, stats)
            if v is not None:
                viols.append(v.to_json())
                if len(viols) > 10:
                    return stats, viols
    return stats, viols


def run(tier, seed):
    res = common.Result(PROP, tier, seed, 'model_checking')
    res.rule = ('synthetic graphs over 15 kinds (11 at n = 3) (or/and with ARBITRARY viable/necessary flags, defenses with status 0/0.5/1 '
                'and suppress tag) with every edge subset x every compromise sequence of attacker A up to the length bound '
                '(a second attacker holds node 0); after every compromise: traversability of every node, full surface, '
                'incrementally updated surface, defense surface, enabled defenses, and graph unchanged by the queries')
    jobs = []
    for n in (1, 2):
        for kinds in itertools.product(KINDS, repeat=n):
            jobs.append((list(kinds), n, 3, False))
    for kinds in itertools.combinations_with_replacement(KINDS3, 3):
        jobs.append((list(kinds), 3, 2, False))
    if tier == 'thorough':
        for kinds in itertools.combinations_with_replacement(KINDS, 3):
            jobs.append((list(kinds), 3, 3, False))
        for kinds in itertools.combinations_with_replacement(KINDS_SMALL, 4):
            jobs.append((list(kinds), 4, 3, True))
    jobs = common.rotate(jobs, seed)
    for stats, viols in common.pmap(_job, jobs, chunksize=2):
        res.merge_counts(stats)
        res.add_violations(viols)
    res.sample({'kinds': jobs[0][0], 'edges': 'every subset', 'sequences': sequences(3, 2)[:6]})
    res.bounds = {'n<=': 3 if tier == 'quick' else 4, 'compromise_sequence_len<=': 2 if tier == 'quick' else 3}
    c = res.counters
    c['states'] = c.get('executions', 0)
    c['transitions'] = c.get('queries', 0)
    c['traces_validated_against_impl'] = c.get('queries', 0)
    c['evaluations'] = c.get('queries', 0)
    c['distinct_nontrivial'] = c.get('nontrivial', 0)
    return res.finish()


def replay(path):
    j = json.load(open(path))
    c = j['case']
    kinds = [(k[0], tuple(k[1]), k[2], tuple(k[3])) for k in c['kinds']]
    v = check(kinds, [tuple(e) for e in c['edges']], tuple(c['compromise_sequence']), {})
    if v is not None:
        print('reproduced:', v)
        print(f'VIOLATION property={PROP} replay={path}')
        return 1
    print('not reproduced')
    return 0
