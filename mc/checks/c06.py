"""C06 - a model can only hold what the language allows (engine E: languages x construction attempts)."""
import itertools
import json
import os

from .. import common, families, langs, modelgen, sandbox
from ..refs import inherit, sem

PROP = 'C06'
DEF_VALUES = [None, -0.1, 0, 0.5, 1, 1.1, 2, float('inf'), float('-inf'), float('nan')]


FORMS = ['1', '0..1', '*', '1..*', '0..*', '2', '2..3']
DEF_KINDS = {'alternate': 'alternate', 'nottc': None, 'enabled': langs.fn('Enabled'), 'disabled': langs.fn('Disabled'), 'bernoulli': langs.fn('Bernoulli', 0.5)}


def languages(tier):
    out = dict(families.cls_langs())
    out['OPS'] = families.ops_lang()
    out['OPS2'] = families.ops2_lang()
    out.update(list(families.fr_variants().items())[::5])
    # every pair of multiplicity forms on one association between types with subtypes, plus a same-type association
    for lf, rf in itertools.product(FORMS, repeat=2):
        out[f'mult:{lf}|{rf}'] = langs.spec([
            langs.asset('Pp', steps=[langs.step('go', 'or')]), langs.asset('P2', sup='Pp'),
            langs.asset('Qq', steps=[langs.step('go', 'or')]), langs.asset('Q2', sup='Qq'), langs.asset('Zz', steps=[langs.step('go', 'or')]),
        ], [langs.assoc('Mm', 'Pp', 'ls', lf, rf, 'rs', 'Q2'), langs.assoc('Ss', 'P2', 'prev', lf, rf, 'next', 'P2')],
            lang_id='org.verif.mult')
    # inherited / overridden / extended defenses: every INH shape x every defense TTC form (defaults follow the resolved declaration)
    shapes = families.inh_shapes(False)
    for i, sh in enumerate(shapes if tier == 'thorough' else shapes[::4]):
        for kn, ttc in DEF_KINDS.items():
            out[f'inhdef:{i}:{kn}'] = families.inh_lang(sh, kind='defense', ttc=ttc)
    if tier == 'thorough':
        out['coreLang'] = langs.mar_spec(os.path.join(sandbox.TESTDATA, 'org.mal-lang.coreLang-1.0.0.mar'))
    return out


def model_state(m):
    d = m._to_dict()
    return json.dumps({'assets': d['assets'], 'associations': d['associations']}, sort_keys=True, default=repr)


def check_classes(name, sp, fx, stats):
    """namespace content, defenses with defaults, association classes with their two fields"""
    viols = []
    L = sem.Lang(sp)
    case = {'language': name}

    def V(key, what, **kw):
        viols.append(common.Violation(key, what, case=dict(case, **kw.pop('extra', {})), **kw))
    ns = fx.ns
    for a in sp['assets']:
        t = a['name']
        if not hasattr(ns, t):
            V('asset_class_missing', f'no class for asset {t}')
            continue
        try:
            o = getattr(ns, t)(name='probe')
        except Exception as e:  # noqa: BLE001
            V(f'asset_class_unusable:{type(e).__name__}', f'{t}(name=...) raised {e}')
            continue
        if str(o.type) != t:
            V('asset_type_property', f'{t}().type is {o.type}')
        want = {n: (1.0 if (r['decl']['ttc'] and r['decl']['ttc'].get('name') == 'Enabled') else 0.0)
                for n, r in inherit.resolve(sp, t).items() if r['decl']['type'] == 'defense'}
        others = {n for n, r in inherit.resolve(sp, t).items() if r['decl']['type'] != 'defense'}
        for d, dv in want.items():
            stats['defense_defaults'] = stats.get('defense_defaults', 0) + 1
            try:
                got = float(getattr(o, d))
            except Exception as e:  # noqa: BLE001
                V('defense_property_missing', f'{t}.{d} is not a property: {type(e).__name__}', extra={'asset': t, 'defense': d})
                continue
            if got != dv:
                V('defense_default_wrong', f'{t}.{d} defaults to {got}', expected=dv, observed=got, extra={'asset': t, 'defense': d})
        props = set(o._properties.keys()) - {'id', 'type'}
        if props != set(want):
            V('defense_property_set', f'{t} exposes properties {sorted(props)}', expected=sorted(want), observed=sorted(props))
        # values: constructor and later assignment
        for d in want:
            for v in DEF_VALUES[1:]:
                ok = 0 <= v <= 1
                for how in ('constructor', 'assignment'):
                    stats['defense_attempts'] = stats.get('defense_attempts', 0) + 1
                    try:
                        if how == 'constructor':
                            x = getattr(ns, t)(name='p2', **{d: v})
                        else:
                            x = getattr(ns, t)(name='p2')
                            setattr(x, d, v)
                        acc = True
                        val = float(getattr(x, d))
                    except Exception:  # noqa: BLE001
                        acc = False
                    if acc != ok:
                        V(f'defense_value_{"accepted" if acc else "rejected"}:{how}' + (':nan' if v != v else ''),
                          f'{t}.{d} = {v} was {"accepted" if acc else "rejected"}', extra={'asset': t, 'defense': d, 'value': v})
                    elif acc and val != float(v):   # (NaN never gets here: it is not inside [0,1])
                        V('defense_value_not_stored', f'{t}.{d} = {v} reads back {val}')
    # association classes
    names = [x['name'] for x in sp['associations']]
    for x in sp['associations']:
        stats['association_classes'] = stats.get('association_classes', 0) + 1
        def lookup(y, flip=False):
            l, r = ('right', 'left') if flip else ('left', 'right')
            args = (y['name'], y[l + 'Asset'], y[r + 'Asset'])
            twice = names.count(y['name']) > 1
            if twice:
                # name and asset types do not identify the association: the field names are part of the question
                try:
                    return fx.factory.get_association_by_signature(*args, y[l + 'Field'], y[r + 'Field'])
                except TypeError:
                    pass
            return fx.factory.get_association_by_signature(*args)
        try:
            cls = lookup(x)
            flipped = lookup(x, True)
        except Exception as e:  # noqa: BLE001
            V(f'signature_lookup_raised:{type(e).__name__}', f'get_association_by_signature({x["name"]},...) raised {e}')
            continue
        if cls is None or not hasattr(ns, cls):
            V('association_class_missing', f'no class for association {x["name"]} {x["leftAsset"]}-{x["rightAsset"]}')
            continue
        same_pair_twice = sum(1 for y in sp['associations'] if y['name'] == x['name'] and
                              {y['leftAsset'], y['rightAsset']} == {x['leftAsset'], x['rightAsset']}) > 1
        if flipped != cls:
            V('signature_lookup_orientation', 'signature lookup depends on the orientation', expected=cls, observed=flipped)
        obj = getattr(ns, cls)()
        fields = sorted(obj._properties.keys())
        if fields != sorted([x['leftField'], x['rightField']]):
            V('association_fields', f'{cls} has fields {fields}', expected=sorted([x['leftField'], x['rightField']]), observed=fields)
        if names.count(x['name']) > 1:
            try:
                others = [lookup(y) for y in sp['associations'] if y['name'] == x['name'] and y is not x]
            except Exception as e:  # noqa: BLE001
                V(f'signature_lookup_raised:{type(e).__name__}', f'get_association_by_signature({x["name"]},...) raised {e}')
                continue
            if cls in others:
                V('same_named_associations_collapse', f'associations named {x["name"]} are not distinguishable', observed=[cls] + others)
    return viols


def attempts_for(L, ac, pool):
    """construction attempts for one association class: (left names, right names)"""
    def side(decl, mx):
        exact = [n for n, t in pool if L.is_sub(t, decl)]
        wrong = [n for n, t in pool if not L.is_sub(t, decl)]
        choices = [[]] + [[n] for n, _t in pool]
        choices += [[a, b] for a, b in itertools.permutations(exact[:3], 2)]
        choices += [[exact[0], w] for w in wrong[:3]] if exact else []
        if exact:
            choices.append([exact[0], exact[0]])
        if mx is not None:
            for k in range(3, mx + 2):
                if len(exact) >= k:
                    choices.append(exact[:k])
        valid = [exact[0]] if exact else []
        return choices, valid
    lc, lv = side(ac['lt'], ac['lmax'])
    rc, rv = side(ac['rt'], ac['rmax'])
    out = [(l, rv) for l in lc] + [(lv, r) for r in rc]
    out += [(l, r) for l in lc[1:6] for r in rc[1:6]]
    seen, uniq = set(), []
    for l, r in out:
        k = (tuple(l), tuple(r))
        if k not in seen:
            seen.add(k)
            uniq.append((l, r))
    return uniq


@common.job
def job(job):
    name, tier = job
    sp = languages(tier)[name]
    fx = langs.fixture(sp)
    L = sem.Lang(sp)
    stats, viols = {'languages': 1}, []
    viols += check_classes(name, sp, fx, stats)
    from maltoolbox.model import Model
    concrete = [a['name'] for a in sp['assets']]
    if name == 'coreLang':
        concrete = ['Application', 'Data', 'Network', 'Credentials', 'Identity', 'SoftwareVulnerability']
    table = modelgen.assoc_table(sp, fx.factory)
    if name == 'coreLang':
        table = [ac for ac in table if any(L.is_sub(t, ac['lt']) for t in concrete) and any(L.is_sub(t, ac['rt']) for t in concrete)][:12]
    for ac in table:
        if not hasattr(fx.ns, ac['cls']):
            viols.append(common.Violation('association_class_missing', f'no class {ac["cls"]} for association {ac["lf"]}/{ac["rf"]}',
                                          case={'language': name, 'association': ac['cls']}))
            continue
        # a fresh model per association class: four instances of every type
        m = Model('m', fx.factory)
        pool, objs = [], {}
        for t in concrete:
            for k in range(4 if (L.is_sub(t, ac['lt']) or L.is_sub(t, ac['rt'])) and t in (ac['lt'], ac['rt']) else 1):
                nm = f'{t}_{k}'
                try:
                    o = getattr(fx.ns, t)(name=nm)
                except Exception:  # noqa: BLE001
                    continue
                m.add_asset(o)
                pool.append((nm, t))
                objs[nm] = o
        linked = []        # accepted instances (L, R)
        for Ln, Rn in attempts_for(L, ac, pool):
            types_ok = all(L.is_sub(dict(pool)[n], ac['lt']) for n in Ln) and all(L.is_sub(dict(pool)[n], ac['rt']) for n in Rn)
            size_ok = (ac['lmax'] is None or len(Ln) <= ac['lmax']) and (ac['rmax'] is None or len(Rn) <= ac['rmax'])
            norep = len(set(Ln)) == len(Ln) and len(set(Rn)) == len(Rn)
            dup = any(l in pl and r in pr for pl, pr in linked for l in Ln for r in Rn)
            allowed = types_ok and size_ok and norep and not dup
            determined = bool(Ln) and bool(Rn)          # empty sides: minimum multiplicities are not in the statement
            before = model_state(m)
            stats['attempts'] = stats.get('attempts', 0) + 1
            accepted = False
            stage = 'construction'
            try:
                x = getattr(fx.ns, ac['cls'])(**{ac['lf']: [objs[n] for n in Ln], ac['rf']: [objs[n] for n in Rn]})
                stage = 'add_association'
                m.add_association(x)
                accepted = True
            except Exception as e:  # noqa: BLE001
                err = type(e).__name__
            after = model_state(m)
            case = {'language': name, 'association': ac['cls'], ac['lf']: Ln, ac['rf']: Rn}
            why = ('wrong_type' if not types_ok else 'too_many' if not size_ok else 'repeated_asset' if not norep
                   else 'duplicate_link' if dup else 'valid')
            if accepted:
                if determined and not allowed:
                    viols.append(common.Violation(f'invalid_association_accepted:{why}', f'{ac["cls"]} with {why} was accepted', case=case))
                    stats['wrongly_accepted'] = stats.get('wrongly_accepted', 0) + 1
                if after == before:
                    viols.append(common.Violation('accepted_but_not_in_model', 'accepted association is not visible in the model', case=case))
                if allowed or not determined:
                    linked.append((Ln, Rn))
                else:
                    try:
                        m.remove_association(x)
                    except Exception:  # noqa: BLE001
                        pass
            else:
                if determined and allowed:
                    viols.append(common.Violation(f'valid_association_rejected:{stage}:{err}', f'valid {ac["cls"]} instance rejected at {stage}', case=case))
                if after != before:
                    viols.append(common.Violation(f'rejected_but_model_changed:{why}', 'a rejected association changed the model', case=case))
                stats['rejected'] = stats.get('rejected', 0) + 1
        # duplicate-link matrix on a fresh model: the existing link may go through ANY member of a
        # multi-member field (first or later, left or right)
        exl = [n for n, t in pool if L.is_sub(t, ac['lt'])]
        exr = [n for n, t in pool if L.is_sub(t, ac['rt'])]
        if len(exl) >= 3 and len(exr) >= 3 and exl[:3] != exr[:3]:
            def multi(mx):
                return mx is None or mx >= 2
            tries = []
            if multi(ac['lmax']):
                tries += [([exl[0], exl[1]], [exr[1]]), ([exl[1], exl[0]], [exr[1]]), ([exl[2], exl[1]], [exr[1]]),
                          ([exl[2], exl[0]], [exr[1]])]
            if multi(ac['rmax']):
                tries += [([exl[1]], [exr[0], exr[1]]), ([exl[1]], [exr[1], exr[0]]), ([exl[1]], [exr[2], exr[1]]),
                          ([exl[1]], [exr[2], exr[0]])]
            if multi(ac['lmax']) and multi(ac['rmax']):
                tries += [([exl[2], exl[0]], [exr[2], exr[0]]), ([exl[2], exl[0]], [exr[2], exr[1]])]
            for Ln, Rn in tries:
                m2 = Model('m2', fx.factory)
                o2 = {}
                for n, t in pool:
                    o2[n] = getattr(fx.ns, t)(name=n)
                    m2.add_asset(o2[n])
                base = [([exl[0]], [exr[0]]), ([exl[1]], [exr[1]])]
                try:
                    for bl, br in base:
                        m2.add_association(getattr(fx.ns, ac['cls'])(**{ac['lf']: [o2[n] for n in bl], ac['rf']: [o2[n] for n in br]}))
                except Exception:  # noqa: BLE001  (e.g. a '1' multiplicity forbids the base, nothing to test)
                    continue
                dup = any(l in bl and r in br for bl, br in base for l in Ln for r in Rn)
                before = model_state(m2)
                stats['attempts'] = stats.get('attempts', 0) + 1
                try:
                    m2.add_association(getattr(fx.ns, ac['cls'])(**{ac['lf']: [o2[n] for n in Ln], ac['rf']: [o2[n] for n in Rn]}))
                    acc = True
                except Exception:  # noqa: BLE001
                    acc = False
                    stats['rejected'] = stats.get('rejected', 0) + 1
                case = {'language': name, 'association': ac['cls'], 'existing': base, ac['lf']: Ln, ac['rf']: Rn}
                if acc and dup:
                    viols.append(common.Violation('invalid_association_accepted:duplicate_link:via_later_member',
                                                  'a link that already exists was added again inside a multi-member association', case=case))
                if not acc and not dup:
                    viols.append(common.Violation('valid_association_rejected:duplicate_matrix', 'a new link was rejected', case=case))
                if not acc and model_state(m2) != before:
                    viols.append(common.Violation('rejected_but_model_changed:duplicate_link', 'a rejected association changed the model', case=case))
        # assignment after construction must be validated too
        exact_l = [n for n, t in pool if L.is_sub(t, ac['lt'])]
        wrong_l = [n for n, t in pool if not L.is_sub(t, ac['lt'])]
        if exact_l and wrong_l:
            x = getattr(fx.ns, ac['cls'])()
            for how in ('setattr', 'append'):
                stats['attempts'] += 1
                try:
                    if how == 'setattr':
                        setattr(x, ac['lf'], [objs[wrong_l[0]]])
                    else:
                        setattr(x, ac['lf'], [objs[exact_l[0]]])
                        getattr(x, ac['lf']).append(objs[wrong_l[0]])
                        x.validate()
                    viols.append(common.Violation(f'wrong_type_accepted_on_{how}', f'{ac["cls"]}.{ac["lf"]} accepted a {dict(pool)[wrong_l[0]]}',
                                                  case={'language': name, 'association': ac['cls']}))
                except Exception:  # noqa: BLE001
                    stats['rejected'] = stats.get('rejected', 0) + 1
        # fields edited in place after construction (append), then handed to the model - more than once: the
        # generated classes forget that a field changed once they have complained about it
        exl = [n for n, t in pool if L.is_sub(t, ac['lt'])]
        exr = [n for n, t in pool if L.is_sub(t, ac['rt'])]
        wrong_l = [n for n, t in pool if not L.is_sub(t, ac['lt'])]
        edits = []
        if ac['lmax'] is not None and len(exl) > ac['lmax'] and exr:
            edits.append(('too_many', exl[:ac['lmax']], exl[ac['lmax']], exr[:1]))
        if wrong_l and exl and exr and (ac['lmax'] is None or ac['lmax'] >= 2):
            edits.append(('wrong_type', exl[:1], wrong_l[0], exr[:1]))
        for why, base_l, extra, base_r in edits:
            m3 = Model('m3', fx.factory)
            o3 = {}
            for n, t in pool:
                o3[n] = getattr(fx.ns, t)(name=n)
                m3.add_asset(o3[n])
            before = model_state(m3)
            case = {'language': name, 'association': ac['cls'], ac['lf']: base_l + [extra], ac['rf']: base_r, 'how': 'append then add_association x3'}
            try:
                x = getattr(fx.ns, ac['cls'])(**{ac['lf']: [o3[n] for n in base_l], ac['rf']: [o3[n] for n in base_r]})
                getattr(x, ac['lf']).append(o3[extra])
            except Exception:  # noqa: BLE001  (rejected right away: fine)
                stats['rejected'] = stats.get('rejected', 0) + 1
                continue
            for attempt in range(3):
                stats['attempts'] = stats.get('attempts', 0) + 1
                try:
                    m3.add_association(x)
                    viols.append(common.Violation(f'invalid_association_accepted:{why}:after_append:attempt{attempt + 1}',
                                                  f'{ac["cls"]} with {why} (appended after construction) was accepted on attempt {attempt + 1}',
                                                  case=case))
                    break
                except Exception:  # noqa: BLE001
                    stats['rejected'] = stats.get('rejected', 0) + 1
                if model_state(m3) != before:
                    viols.append(common.Violation(f'rejected_but_model_changed:{why}:after_append', 'a rejected association changed the model', case=case))
                    break
    if name == 'OPS':
        viols += dense_rejections(fx, stats)
    return stats, [v.to_json() for v in viols[:60]]


@common.job
def leaf_first_chain(n):
    """an inheritance chain of n assets declared leaf first (and root first): the classes must be built with the
    interpreter's default recursion limit, inherited defenses included"""
    import sys
    viols, stats = [], {'languages': 2}
    chain = [langs.asset('N0', steps=[langs.step('hardened', 'defense', ttc=langs.fn('Enabled'), reaches=[langs.S('go')]),
                                      langs.step('go', 'or')])]
    chain += [langs.asset(f'N{i}', sup=f'N{i - 1}') for i in range(1, n)]
    for order, assets in (('leaf_first', list(reversed(chain))), ('root_first', chain)):
        sp = langs.spec(assets, [langs.assoc('Owns', 'N0', 'owner', '0..1', '*', 'owned', 'N0')], lang_id='org.verif.chain')
        case = {'language': f'chain of {n} assets declared {order}'}
        old = sys.getrecursionlimit()
        try:
            sys.setrecursionlimit(1000)
            fx = langs.Fixture(sp)
            leaf = getattr(fx.ns, f'N{n - 1}')(name='leaf')
            if float(leaf.hardened) != 1.0:
                viols.append(common.Violation('defense_default_wrong:deep_chain', 'inherited defense default lost', case=case))
        except RecursionError:
            viols.append(common.Violation(f'asset_classes_not_built:RecursionError:{order}',
                                          f'no classes for an inheritance chain of {n} assets declared {order}', case=case))
        except common.Violation as v:
            v.case = case
            viols.append(v)
        finally:
            sys.setrecursionlimit(old)
    return stats, [v.to_json() for v in viols]


def dense_rejections(fx, stats):
    """a rejection must also arrive when the assets involved are densely linked (twelve hosts, every pair linked by
    an association of its own): the error message must not expand the object graph"""
    from maltoolbox.model import Model
    out = []
    ns = fx.ns
    m = Model('dense', fx.factory)
    hs = [ns.Host(name=f'h{i}') for i in range(12)]
    d = ns.Data(name='d')
    for o in hs + [d]:
        m.add_asset(o)
    for i in range(12):
        for j in range(i + 1, 12):
            m.add_association(ns.Peer(peers=[hs[i]], peersOf=[hs[j]]))
    before = model_state(m)
    attempts = {'too_many': lambda: m.add_association(ns.Run(host=[hs[0], hs[1]], apps=[hs[2]])),
                'wrong_type': lambda: m.add_association(ns.Holds(owner=[hs[0]], datas=[hs[1]])),
                'duplicate_link': lambda: m.add_association(ns.Peer(peers=[hs[0]], peersOf=[hs[1]])),
                'repeated_asset': lambda: m.add_association(ns.Peer(peers=[hs[3], hs[3]], peersOf=[hs[1]]))}
    for why, attempt in attempts.items():
        stats['attempts'] = stats.get('attempts', 0) + 1
        case = {'language': 'OPS', 'model': '12 hosts, every pair linked by its own Peer association', 'attempt': why}
        try:
            with common.time_limit(5):
                attempt()
            out.append(common.Violation(f'invalid_association_accepted:{why}:dense_model', f'{why} accepted', case=case))
        except common.Timeout:
            out.append(common.Violation(f'rejection_does_not_arrive:{why}:dense_model',
                                        'rejecting an invalid association takes more than 5 s CPU in a densely linked model', case=case))
            break
        except Exception:  # noqa: BLE001
            stats['rejected'] = stats.get('rejected', 0) + 1
        if model_state(m) != before:
            out.append(common.Violation(f'rejected_but_model_changed:{why}:dense_model', 'a rejected association changed the model', case=case))
    return out


def run(tier, seed):
    res = common.Result(PROP, tier, seed, 'exploration')
    res.rule = ('languages: CLS family (inherited defenses with every TTC form, all 7 multiplicity forms on either side, same-named '
                'associations over different type pairs incl. subtypes), OPS, OPS2 (+ coreLang slice in thorough); for each: every '
                'asset class and defense property with default, every defense value in {-0.1,0,0.5,1,1.1,2,inf,-inf,nan} by constructor and by '
                'assignment, every association class via its signature, and per association class every construction attempt '
                'drawn from {0..max+1 members, every type incl. subtype/supertype/sibling/unrelated, repeated asset, duplicate link}; '
                'accepted iff allowed by the language; rejected attempts leave the model unchanged')
    jobs = common.rotate([(n, tier) for n in languages(tier)], seed)
    for stats, viols in common.pmap(job, jobs):
        res.merge_counts(stats)
        res.add_violations(viols)
    for stats, viols in common.pmap(leaf_first_chain, [300]):
        res.merge_counts(stats)
        res.add_violations(viols)
    res.sample({'language': 'multiplicities', 'association': 'M6 (2..3 | ...)', 'attempt': {'l6': ['Pp_0', 'Pp_1', 'Pp_2', 'Pp_3'], 'r6': ['Qq_0']}})
    c = res.counters
    c['evaluations'] = c.get('attempts', 0) + c.get('defense_attempts', 0) + c.get('defense_defaults', 0)
    c['distinct_nontrivial'] = c.get('rejected', 0) + c.get('defense_attempts', 0) // 2
    return res.finish()


def replay(path):
    import sys
    return common.rerun(PROP, path, sys.modules[__name__])
