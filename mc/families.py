"""Language families (DESIGN 2.5) as spec dicts."""
from .langs import (F, S, V, COL, UNI, INT, DIF, TRA, SUB, fn, step, asset, assoc, spec)


def ops_lang():
    """OPS: everything the model / attack-graph operations can touch, in one small language."""
    return spec([
        asset('Node', steps=[
            step('access', 'or',
                 reaches=[S('access'), COL(F('peers'), S('access')), COL(F('peers'), S('access')),
                          S('breach')],
                 ttc=fn('Exponential', 0.1), tags=['tagA', 'tagB'], meta={'mitre': 'T1000'}),
            step('breach', 'and', reaches=[COL(F('datas'), S('read'))]),
            step('hardened', 'defense', ttc=fn('Enabled'), reaches=[S('breach')]),
            step('patched', 'defense', ttc=fn('Disabled'), reaches=[S('access')],
                 tags=['suppress']),
            step('hasData', 'exist', requires=[F('datas')], reaches=[S('breach')]),
            step('noData', 'notExist', requires=[F('datas')], reaches=[S('breach')]),
        ]),
        asset('Host', sup='Node', steps=[
            step('root', 'or', reaches=[S('access')], ttc=fn('Bernoulli', 0.5)),
            step('access', 'or', reaches=[COL(F('apps'), S('access'))], overrides=False,
                 ttc=fn('Exponential', 0.1), tags=['tagA', 'tagB'], meta={'mitre': 'T1000'}),
        ]),
        asset('Data', steps=[step('read', 'or'), step('encrypted', 'defense')]),
    ], [
        assoc('Peer', 'Node', 'peers', '*', '*', 'peersOf', 'Node'),
        assoc('Run', 'Host', 'host', '0..1', '*', 'apps', 'Node'),
        assoc('Holds', 'Node', 'owner', '0..1', '*', 'datas', 'Data'),
        assoc('Link', 'Host', 'hostL', '*', '*', 'dataL', 'Data'),
        assoc('Link', 'Node', 'nodeL', '*', '*', 'nodeR', 'Node'),
    ], lang_id='org.verif.ops')


def ops2_lang():
    """Second, differently shaped OPS language (deeper inheritance, 1..* and 2 multiplicities)."""
    return spec([
        asset('Thing', abstract=True, steps=[
            step('use', 'or', reaches=[COL(F('parts'), S('use'))]),
            step('locked', 'defense', ttc=fn('Disabled')),
        ]),
        asset('Box', sup='Thing', steps=[
            step('open', 'and', reaches=[S('use'), COL(F('inside'), S('use'))]),
        ]),
        asset('Crate', sup='Box', steps=[
            step('use', 'or', reaches=[COL(F('whole'), S('use'))], overrides=False),
            step('sealed', 'defense', ttc=fn('Enabled')),
        ]),
        asset('Item', sup='Thing', steps=[]),
    ], [
        assoc('Part', 'Thing', 'whole', '0..1', '*', 'parts', 'Thing'),
        assoc('Contain', 'Box', 'container', '1', '0..2', 'inside', 'Item'),
        assoc('Pair', 'Crate', 'crateA', '1..*', '2', 'itemsB', 'Item'),
    ], lang_id='org.verif.ops2')


def sem_lang(aa_steps=(), bb_steps=(), dd_steps=()):
    """SEM skeleton (C01, C15, C02 existence): Base <- Aa <- Bb, Base <- Cc, unrelated Dd."""
    return spec([
        asset('Base', steps=[step('t', 'or')],
              variables=[('vdown', F('down')), ('vmix', UNI(F('peers'), F('down')))]),
        asset('Aa', sup='Base', steps=list(aa_steps),
              variables=[('vrights', F('rights')), ('vcut', DIF(F('peers'), F('down')))]),
        asset('Bb', sup='Aa', steps=list(bb_steps)),
        asset('Cc', sup='Base'),
        asset('Dd', steps=[step('t', 'or')] + list(dd_steps)),
    ], [
        assoc('Tree', 'Base', 'up', '0..1', '*', 'down', 'Base'),
        assoc('Peer', 'Base', 'peers', '*', '*', 'peersOf', 'Base'),
        assoc('Cross', 'Aa', 'lefts', '*', '*', 'rights', 'Cc'),
        assoc('Own', 'Dd', 'owner', '1', '*', 'owned', 'Base'),
    ], lang_id='org.verif.sem')


# --------------------------------------------------------------------------- INH family

INH_CHOICES = ('absent', 'none', 'over', 'ext')


def inh_levels(depth4=False):
    """(type, parent) root-down; L2 is a sibling of L1; optional 4th level under L1 (+ sibling)."""
    lv = [('Rr', None), ('Mm', 'Rr'), ('L1', 'Mm'), ('L2', 'Mm')]
    if depth4:
        lv += [('K1', 'L1'), ('K2', 'L1')]
    return lv


def inh_shapes(depth4=False):
    """All well-formed assignments level -> choice for step 'sx' ('+>' and a bare re-declaration
    need a definition in some ancestor; the root cannot extend)."""
    import itertools
    lv = inh_levels(depth4)
    par = dict(lv)
    out = []
    for combo in itertools.product(INH_CHOICES, repeat=len(lv)):
        ch = {t: c for (t, _p), c in zip(lv, combo)}
        ok = True
        for t, _p in lv:
            if ch[t] == 'ext':
                a, found = par[t], False
                while a:
                    if ch[a] != 'absent':
                        found = True
                    a = par[a]
                if not found:
                    ok = False
        if ok:
            out.append(ch)
    return out


def inh_lang(shape, kind='or', depth4=False, ttc=None, tags=(), meta=None, requires=None, distinct=True):
    """Language for one shape.  Every level's reaches names its own marker step m<Level> (all
    markers live on the root).  Every re-declaration repeats type / TTC / tags / meta (DESIGN C02)."""
    lv = inh_levels(depth4)
    markers = [step('m' + t, 'or') for t, _p in lv]
    assets = []
    for t, p in lv:
        steps = []
        if p is None:
            steps += markers
            steps.append(step('ux', 'or', reaches=[S('mRr')]))
        if t == 'Mm':
            steps.append(step('ux', 'or', reaches=[S('mMm')], overrides=False))
        c = shape[t]
        if c != 'absent':
            rs = None if c == 'none' else [S('m' + t)]
            # every level's declaration carries its own tags / meta (and TTC for or/and steps): a '->'
            # redefinition replaces them, '+>' and a bare re-declaration keep the inherited ones
            k = [x for x, _ in lv].index(t)
            tg, mt, tc = tuple(tags), dict(meta or {}), ttc
            if ttc == 'alternate':            # Enabled on even levels, Disabled on odd ones
                tc = fn('Enabled') if k % 2 == 0 else fn('Disabled')
            if distinct:
                tg = tg + ('tag' + t,)
                mt['user'] = 'declared on ' + t
                if tc is None and kind in ('or', 'and'):
                    tc = fn('Exponential', float(k + 1))
            steps.append(step('sx', kind, reaches=rs, overrides=(c != 'ext'), ttc=tc, tags=tg,
                              meta=mt, requires=requires))
        assets.append(asset(t, sup=p, steps=steps))
    return spec(assets, [assoc('Link', 'Rr', 'ins', '*', '*', 'outs', 'Rr')], lang_id='org.verif.inh')


# --------------------------------------------------------------------------- CLS family (C06, C15)

def cls_langs():
    """-> {name: spec}: inheritance with inherited defenses, every multiplicity form on either side,
    same-named associations over different type pairs (one of them between subtypes)."""
    out = {}
    out['defenses'] = spec([
        asset('Base', abstract=True, steps=[step('d1', 'defense', ttc=fn('Enabled')), step('d2', 'defense'),
                                            step('go', 'or')]),
        asset('Mid', sup='Base', steps=[step('d3', 'defense', ttc=fn('Disabled')), step('d4', 'defense', ttc=fn('Bernoulli', 0.5))]),
        asset('Leaf', sup='Mid', steps=[step('d1', 'defense', ttc=fn('Enabled'), reaches=[S('go')], overrides=False),
                                        step('d5', 'defense', ttc=fn('Enabled'))]),
        asset('Side', sup='Base', steps=[]),
        asset('Other', steps=[step('o1', 'defense', ttc=fn('Enabled')), step('go', 'or')]),
    ], [
        assoc('Owns', 'Base', 'owner', '0..1', '*', 'things', 'Other'),
        assoc('Pairs', 'Mid', 'mids', '*', '*', 'sides', 'Side'),
    ], lang_id='org.verif.cls1')
    forms = ['1', '0..1', '*', '1..*', '0..*', '2', '2..3']
    assocs = []
    for i, lf in enumerate(forms):
        rf = forms[(i * 3 + 1) % len(forms)]
        assocs.append(assoc(f'M{i}', 'Pp', f'l{i}', lf, rf, f'r{i}', 'Qq'))
    out['multiplicities'] = spec([
        asset('Pp', steps=[step('go', 'or')]), asset('P2', sup='Pp'), asset('Qq', steps=[step('go', 'or')]),
        asset('Q2', sup='Qq'), asset('Zz', steps=[step('go', 'or')]),
    ], assocs + [assoc('Self', 'Pp', 'prev', '0..1', '0..1', 'next', 'Pp')], lang_id='org.verif.cls2')
    out['dupnames'] = spec([
        asset('Top', steps=[step('go', 'or')]), asset('Aa', sup='Top'), asset('Bb', sup='Top'), asset('A2', sup='Aa'),
        asset('Lone', steps=[step('go', 'or')]),
    ], [
        assoc('Conn', 'Aa', 'as', '*', '*', 'bs', 'Bb'),
        assoc('Conn', 'A2', 'a2s', '0..1', '*', 'lones', 'Lone'),
        assoc('Conn', 'Top', 'tops', '*', '1', 'lone', 'Lone'),
        assoc('Solo', 'Lone', 'l1', '*', '*', 'l2', 'Lone'),
    ], lang_id='org.verif.cls3')
    # same association name AND same field name, different type / maximum (either declaration order)
    for tag, order in (('lax_first', (0, 1)), ('strict_first', (1, 0))):
        decl = [assoc('Storage', 'Shelf', 'shelf', '1', '*', 'items', 'Thing'),
                assoc('Storage', 'Safe', 'safe', '1', '0..1', 'items', 'Gem')]
        assets = [asset('Thing', steps=[step('go', 'or')]), asset('Gem', sup='Thing'), asset('Shelf', steps=[step('go', 'or')]),
                  asset('Safe', steps=[step('go', 'or')])]
        if tag == 'strict_first':
            assets = [assets[3], assets[2], assets[1], assets[0]]
            assets = [assets[3], assets[2], assets[0], assets[1]]
        out['shared_field:' + tag] = spec(assets, [decl[i] for i in order], lang_id='org.verif.cls4')
    # the same name between the same two types in opposite directions
    out['opposite'] = spec([asset('Hh', steps=[step('go', 'or')]), asset('Ss', steps=[step('go', 'or')]), asset('H2', sup='Hh')], [
        assoc('Uses', 'Hh', 'users', '*', '*', 'used', 'Ss'),
        assoc('Uses', 'Ss', 'clients', '*', '0..1', 'server', 'Hh'),
    ], lang_id='org.verif.cls5')
    # the same name between the same two types in the same direction: only the field names differ
    # (one pair between different types, one pair on a single type)
    out['samepair'] = spec([
        asset('Host', steps=[step('access', 'or', reaches=[COL(F('primary'), S('use')), COL(F('backups'), S('wipe'))])]),
        asset('Disk', steps=[step('use', 'or', reaches=[COL(F('primaryHost'), S('access')), COL(F('mirrors'), S('use'))]),
                             step('wipe', 'or', reaches=[COL(F('backupHost'), S('access')), COL(F('after'), S('wipe'))])]),
        asset('Ssd', sup='Disk'),
    ], [
        assoc('Storage', 'Host', 'primaryHost', '0..1', '1', 'primary', 'Disk'),
        assoc('Storage', 'Host', 'backupHost', '0..1', '*', 'backups', 'Disk'),
        assoc('Storage', 'Disk', 'mirrorOf', '*', '*', 'mirrors', 'Disk'),
        assoc('Storage', 'Disk', 'before', '0..1', '0..1', 'after', 'Disk'),
    ], lang_id='org.verif.cls6')
    # same name, same two types, same two field names - swapped between the sides
    out['swapfields'] = spec([
        asset('Host', steps=[step('go', 'or', reaches=[COL(F('dst'), S('fwd')), COL(F('src'), S('fwd'))])]),
        asset('Router', steps=[step('fwd', 'or', reaches=[COL(F('src'), S('go'))])]),
        asset('Edge', sup='Router'),
    ], [
        assoc('Flow', 'Host', 'src', '*', '*', 'dst', 'Router'),
        assoc('Flow', 'Host', 'dst', '*', '0..1', 'src', 'Router'),
    ], lang_id='org.verif.cls8')
    # sub-entry names that coincide because asset names contain underscores
    out['underscore'] = spec([
        asset('Net_Zone', steps=[step('go', 'or', reaches=[COL(F('members'), S('go'))])]), asset('Host', steps=[step('go', 'or')]),
        asset('Net', steps=[step('go', 'or', reaches=[COL(F('members'), S('go'))])]), asset('Zone_Host', steps=[step('go', 'or')]),
    ], [
        assoc('Conn', 'Net_Zone', 'zones', '*', '*', 'members', 'Host'),
        assoc('Conn', 'Net', 'zones', '0..1', '*', 'members', 'Zone_Host'),
    ], lang_id='org.verif.cls9')
    # three associations of one name whose joined class names coincide even with the field names appended,
    # and an association that is literally called like a sub-entry of another one
    out['joined'] = spec([
        asset('Web_App', steps=[step('go', 'or', reaches=[COL(F('stores'), S('go')), COL(F('backing'), S('go'))])]),
        asset('Data', steps=[step('go', 'or')]), asset('Web', steps=[step('go', 'or', reaches=[COL(F('backing'), S('go'))])]),
        asset('App_Data', steps=[step('go', 'or')]), asset('Host', steps=[step('go', 'or', reaches=[COL(F('apps'), S('go'))])]),
        asset('App', steps=[step('go', 'or', reaches=[COL(F('peer'), S('go'))])]),
    ], [
        assoc('Link', 'Web_App', 'apps', '0..1', '*', 'stores', 'Data'),
        assoc('Link', 'Web', 'fronts', '*', '0..1', 'backing', 'App_Data'),
        assoc('Link', 'Web_App', 'fronts', '*', '*', 'backing', 'Data'),
        assoc('Link', 'Host', 'hosts', '*', '*', 'apps', 'App'),
        assoc('Link_Host_App', 'App', 'peerOf', '*', '*', 'peer', 'App'),
    ], lang_id='org.verif.cls10')
    # a language that declares no association at all
    out['noassoc'] = spec([
        asset('Aa', steps=[step('go', 'or', reaches=[S('end')]), step('end', 'and'), step('dd', 'defense', ttc=fn('Enabled'), reaches=[S('end')])]),
        asset('Bb', sup='Aa', steps=[step('go', 'or', reaches=[S('go')], overrides=False)]),
    ], [], lang_id='org.verif.cls7')
    return out


# --------------------------------------------------------------------------- FR family: re-used field names

def fr_lang(asset_order=None, assoc_order=None):
    """Field names re-used along a chain (File.parent -> Folder, Chunk.parent -> File) and one field-name
    pair (owner / parts) re-used by two same-named associations between unrelated type pairs.  The
    declaration order of assets and associations is a parameter: resolution must not depend on it."""
    assets = {
        'Folder': asset('Folder', steps=[step('access', 'or')]),
        'File': asset('File', steps=[step('read', 'or', reaches=[COL(F('parent'), S('access'))]), step('access', 'or'),
                                     step('spread', 'or', reaches=[COL(F('chunks'), S('scan'))])]),
        'Chunk': asset('Chunk', steps=[step('scan', 'or', reaches=[COL(F('parent'), S('read')),
                                                                  COL(COL(F('parent'), F('parent')), S('access'))])]),
        'Server': asset('Server', steps=[step('use', 'or', reaches=[COL(F('parts'), S('spin'))])]),
        'Disk': asset('Disk', steps=[step('spin', 'or', reaches=[COL(F('owner'), S('use'))])]),
        'Office': asset('Office', steps=[step('enter', 'or', reaches=[COL(F('parts'), S('print'))])]),
        'Printer': asset('Printer', steps=[step('print', 'or', reaches=[COL(F('owner'), S('enter'))])]),
    }
    assocs = {
        'InFolder': assoc('InFolder', 'Folder', 'parent', '1', '*', 'files', 'File'),
        'InFile': assoc('InFile', 'File', 'parent', '1', '*', 'chunks', 'Chunk'),
        'HasD': assoc('Has', 'Server', 'owner', '1', '*', 'parts', 'Disk'),
        'HasP': assoc('Has', 'Office', 'owner', '1', '*', 'parts', 'Printer'),
    }
    ao = asset_order or list(assets)
    ao = list(ao) + [a for a in assets if a not in ao]
    so = assoc_order or list(assocs)
    so = list(so) + [a for a in assocs if a not in so]
    return spec([assets[a] for a in ao], [assocs[a] for a in so], lang_id='org.verif.fr')


def fr_variants():
    import itertools
    out = {}
    for ao in itertools.permutations(['Folder', 'File', 'Chunk']):
        for so in (['InFolder', 'InFile', 'HasD', 'HasP'], ['HasP', 'InFile', 'HasD', 'InFolder']):
            out['FR:' + ''.join(a[:2] for a in ao) + ':' + so[0]] = fr_lang(list(ao), so)
    return out
