"""Subprocess body of C16: generates the attack graph of each requested (language, model) cell
through three entry paths, twice each, and prints one JSON object with content hashes and the
in-process invariants.  Run as:  python -m mc.c16_worker <json args>   (PYTHONHASHSEED set by parent)"""
import copy
import hashlib
import json
import os
import sys
import zipfile


def cells():
    from . import families, langs, sandbox
    from .langs import COL, F, S, UNI, DIF, TRA, SUB, V, step
    from .refgraph import gops_lang, gops2_lang
    out = []
    ops = families.ops_lang()
    out.append(('OPS/a', ops, [('h1', 'Host', {'patched': -0.0}), ('h2', 'Host', {'hardened': 0}), ('d1', 'Data', {'encrypted': 1})],
                [('Peer', 'peers', ['h1'], 'peersOf', ['h2']), ('Holds', 'owner', ['h1'], 'datas', ['d1']),
                 ('Run', 'host', ['h1'], 'apps', ['h2']), ('Link_Host_Data', 'hostL', ['h1', 'h2'], 'dataL', ['d1'])],
                [('h1', ['access', 'root']), ('d1', ['read'])]))
    out.append(('OPS/b', ops, [('x', 'Host', {}), ('y', 'Data', {})], [], [('x', ['nosuch'])]))
    out.append(('OPS/selfloop', ops, [('x', 'Host', {'patched': 1.0})], [('Peer', 'peers', ['x'], 'peersOf', ['x'])], [('x', ['access'])]))
    o2 = families.ops2_lang()
    out.append(('OPS2/a', o2, [('c1', 'Crate', {}), ('i1', 'Item', {}), ('i2', 'Item', {'locked': 1.0})],
                [('Part', 'whole', ['c1'], 'parts', ['i1', 'i2']), ('Contain', 'container', ['c1'], 'inside', ['i1'])], [('c1', ['open'])]))
    # a step that lists one tag twice among several (valid; the compiler keeps the list as written)
    dup = langs.spec([langs.asset('Tg', steps=[
        step('go', 'or', tags=['hidden', 'entry', 'hidden', 'noisy', 'remote'], reaches=[COL(F('nexts'), S('go'))]),
        step('dd', 'defense', tags=['x', 'x'], ttc=langs.fn('Enabled'), reaches=[S('go')])])],
        [langs.assoc('Nx', 'Tg', 'prevs', '*', '*', 'nexts', 'Tg')], lang_id='org.verif.duptags')
    out.append(('DUPTAGS/a', dup, [('a', 'Tg', {}), ('b', 'Tg', {'dd': 0.0})], [('Nx', 'prevs', ['a'], 'nexts', ['b'])], [('a', ['go'])]))
    g1, g2 = gops_lang(), gops2_lang()
    out.append(('GOPS/a', g1, [('a', 'Nn', {'dd': 0.0}), ('b', 'Nn', {})], [('Peer', 'peers', ['b'], 'peersOf', ['a'])], [('a', ['go']), ('b', ['chk'])]))
    out.append(('GOPS2/a', g2, [('a', 'Pp', {}), ('b', 'Qq', {'lock': True}), ('c', 'Qq', {})],
                [('Kid', 'par', ['a'], 'kids', ['b', 'c'])], [('a', ['run'])]))
    sem_steps = [step('s0', 'or', reaches=[COL(UNI(F('rights'), V('vdown')), S('t'))]),
                 step('s1', 'and', reaches=[COL(SUB('Bb', TRA(F('down'))), S('t')), COL(DIF(F('peers'), F('down')), S('t'))]),
                 step('s2', 'exist', requires=[COL(F('down'), F('peers'))], reaches=[S('s0')]),
                 step('s3', 'defense', ttc=langs.fn('Enabled'), reaches=[S('s1')])]
    sem1 = families.sem_lang(sem_steps, [step('s0', 'or', reaches=[COL(F('peers'), S('t'))], overrides=False)])
    sem2 = families.sem_lang(sem_steps[:2][::-1], [])        # same type names, different steps
    for nm, sp in (('SEM1', sem1), ('SEM2', sem2)):
        out.append((nm + '/chain', sp, [('a', 'Aa', {}), ('b', 'Bb', {}), ('c', 'Cc', {})],
                    [('Tree', 'up', ['a'], 'down', ['b', 'c']), ('Peer', 'peers', ['b'], 'peersOf', ['a', 'c']),
                     ('Cross', 'lefts', ['a', 'b'], 'rights', ['c'])], [('a', ['s0'])]))
        out.append((nm + '/cycle', sp, [('a', 'Aa', {}), ('b', 'Bb', {}), ('d', 'Dd', {})],
                    [('Tree', 'up', ['a'], 'down', ['b']), ('Tree', 'up', ['b'], 'down', ['a']), ('Own', 'owner', ['d'], 'owned', ['a', 'b'])],
                    [('b', ['s1', 't'])]))
    shapes = families.inh_shapes(False)
    chain = [i for i, sh in enumerate(shapes) if sh == {'Rr': 'none', 'Mm': 'ext', 'L1': 'ext', 'L2': 'ext'}]
    for i in [7, 33, 80, 121, 160] + chain:
        for kind in ('or', 'defense'):
            sp = families.inh_lang(shapes[i], kind=kind, ttc='alternate' if kind == 'defense' else None)
            out.append((f'INH{i}/{kind}', sp, [('r', 'Rr', {}), ('m', 'Mm', {}), ('l1', 'L1', {}), ('l2', 'L2', {})],
                        [('Link', 'ins', ['r', 'm'], 'outs', ['l1', 'l2'])], [('l1', ['sx', 'mRr'])]))
    for k, sp in families.cls_langs().items():
        types = [a['name'] for a in sp['assets']]
        out.append((f'CLS/{k}', sp, [(f'x{i}', t, {}) for i, t in enumerate(types)], [], [('x0', ['go'])]))
    core = langs.mar_spec(os.path.join(sandbox.TESTDATA, 'org.mal-lang.coreLang-1.0.0.mar'))
    out.append(('coreLang/example', core, 'FILE:' + os.path.join(sandbox.TESTDATA, 'simple_example_model.json'), None, None))
    return out


def sha(obj):
    return hashlib.sha256(json.dumps(obj, sort_keys=False, default=repr).encode()).hexdigest()[:16]


def write_inputs(d, cell):
    """-> (mar path, mal path, model path)"""
    from . import langs
    from .refs import unparse
    from maltoolbox.model import Model, AttackerAttachment
    name, sp, assets, links, eps = cell
    os.makedirs(d, exist_ok=True)
    mar = os.path.join(d, 'lang.mar')
    with zipfile.ZipFile(mar, 'w') as z:
        z.writestr('langspec.json', json.dumps(sp))
    mal = os.path.join(d, 'lang.mal')
    with open(mal, 'w', encoding='utf-8') as f:
        f.write(unparse.unparse(sp))
    if isinstance(assets, str):
        return mar, mal, assets[5:], None
    fx = langs.fixture(sp, key=('C16', name))
    m = Model('m ' + name, fx.factory)
    objs = {}
    for n, t, dv in assets:
        o = getattr(fx.ns, t)(name=n, **dv)
        m.add_asset(o)
        objs[n] = o
    for cls, lf, L, rf, R in links:
        m.add_association(getattr(fx.ns, cls)(**{lf: [objs[x] for x in L], rf: [objs[x] for x in R]}))
    at = AttackerAttachment()
    m.add_attacker(at)
    for n, steps in eps:
        for s in steps:
            at.add_entry_point(objs[n], s)
    mp = os.path.join(d, 'model.yml')
    m.save_to_file(mp)
    return mar, mal, mp, (fx, m)


def run_cell(d, cell):
    from maltoolbox.language import LanguageGraph, LanguageClassesFactory
    from maltoolbox.model import Model
    from maltoolbox.attackgraph import AttackGraph
    from maltoolbox.attackgraph.analyzers.apriori import calculate_viability_and_necessity
    from maltoolbox.wrappers import create_attack_graph
    name, sp = cell[0], cell[1]
    mar, mal, mp, inmem = write_inputs(d, cell)
    out = {'hashes': {}, 'problems': []}
    if inmem is not None:
        # the model as it was built through the API (defense values as the caller gave them: ints, floats),
        # never saved or loaded
        fx, m = inmem
        g = AttackGraph(fx.lang_graph, m)
        g.attach_attackers()
        calculate_viability_and_necessity(g)
        out['hashes']['api_inmemory#0'] = sha(g._to_dict())
    # direct API, twice on the same language graph and model
    spec = copy.deepcopy(sp)
    lg = LanguageGraph(spec)
    fac = LanguageClassesFactory(lg)
    model = Model.load_from_file(mp, fac)
    before_model = json.dumps(model._to_dict(), default=repr)
    graphs = []
    for rep in range(2):
        g = AttackGraph(lg, model)
        g.attach_attackers()
        calculate_viability_and_necessity(g)
        out['hashes'][f'api#{rep}'] = sha(g._to_dict())
        graphs.append(g)
    if spec != sp:
        out['problems'].append('language specification changed by generation/analysis')
    if json.dumps(model._to_dict(), default=repr) != before_model:
        out['problems'].append('model serialisation changed by generation/analysis')
    # interleaved: both graphs are built from the one model first, attackers attached afterwards in the
    # opposite order; each must still equal the graph built alone
    ga, gb = AttackGraph(lg, model), AttackGraph(lg, model)
    for k, g in (('b', gb), ('a', ga)):
        g.attach_attackers()
        calculate_viability_and_necessity(g)
        out['hashes'][f'api_interleaved_{k}#0'] = sha(g._to_dict())
    for g in (ga, gb):
        own = {id(n) for n in g.nodes}
        for att in g.attackers:
            if any(id(n) not in own for n in list(att.entry_points) + list(att.reached_attack_steps)):
                out['problems'].append('two graphs built from one model share node objects (through an attacker)')
    ids0 = {id(n) for n in graphs[0].nodes}
    if any(id(n) in ids0 for n in graphs[1].nodes):
        out['problems'].append('two graphs built from one model share node objects')
    reach0 = {id(x) for n in graphs[0].nodes for x in list(n.children) + list(n.parents)}
    if reach0 - ids0:
        out['problems'].append('a graph references nodes outside itself')
    for path, lf in (('mar', mar), ('mal', mal)):
        for rep in range(2):
            try:
                g = create_attack_graph(lf, mp)
                out['hashes'][f'{path}#{rep}'] = sha(g._to_dict())
            except BaseException as e:  # noqa: BLE001
                out['hashes'][f'{path}#{rep}'] = f'ERROR:{type(e).__name__}:{str(e)[:80]}'
    return out


def main():
    from . import sandbox
    sandbox.enter()
    args = json.loads(sys.argv[1])
    cs = cells()
    sel = [c for c in cs if args['cells'] is None or c[0] in args['cells']]
    if args.get('reverse'):
        sel.reverse()
    res = {}
    for c in sel:
        d = sandbox.tmpfile('_c16')
        try:
            res[c[0]] = run_cell(d, c)
        except BaseException as e:  # noqa: BLE001
            res[c[0]] = {'hashes': {}, 'problems': [f'worker raised {type(e).__name__}: {str(e)[:200]}']}
    sys.stdout.write('C16RESULT ' + json.dumps(res) + '\n')


if __name__ == '__main__':
    main()
