"""ref_gfp: viability / necessity as the greatest fixed point of the C08 equations (plain Python).

A graph is (kinds, parents) with kinds[i] = (type, ttc_name_or_None, status) and parents[i] the
list of parent indexes.  Downward Kleene iteration from all-true; `brute` enumerates every
labelling to validate that the iteration result is a solution dominating all others.
"""
import itertools


def is_dist(ttc_name):
    """a named TTC function other than Enabled/Disabled counts as a probability distribution"""
    return ttc_name is not None and ttc_name not in ('Enabled', 'Disabled')


def own_label(kind):
    typ, _ttc, st = kind
    if typ == 'defense':
        return (st != 1, st != 0)
    if typ == 'exist':
        return (bool(st), not st)
    if typ == 'notExist':
        return (not st, bool(st))
    return None


def equations(kinds, parents, via, nec, i):
    """right-hand side of node i's equations under labelling (via, nec)"""
    typ = kinds[i][0]
    own = own_label(kinds[i])
    if own is not None:
        return own
    ps = parents[i]
    if not ps:
        return (True, True)
    nfc = [True if is_dist(kinds[p][1]) else nec[p] for p in ps]
    if typ == 'or':
        return (any(via[p] for p in ps), all(nfc))
    if typ == 'and':
        return (all(via[p] for p in ps), any(nfc))
    raise ValueError(typ)


def gfp(kinds, parents):
    n = len(kinds)
    via, nec = [True] * n, [True] * n
    changed = True
    while changed:
        changed = False
        for i in range(n):
            v, c = equations(kinds, parents, via, nec, i)
            v, c = via[i] and v, nec[i] and c
            if (v, c) != (via[i], nec[i]):
                via[i], nec[i] = v, c
                changed = True
    return via, nec


def brute(kinds, parents):
    """greatest solution by enumeration of all labellings (validation of gfp on small graphs)"""
    n = len(kinds)
    best = None
    for bits in itertools.product((False, True), repeat=2 * n):
        via, nec = list(bits[:n]), list(bits[n:])
        if all(equations(kinds, parents, via, nec, i) == (via[i], nec[i]) for i in range(n)):
            if best is None:
                best = (via, nec)
            else:
                # solutions are closed under pointwise 'or' for monotone systems: keep the join
                best = ([a or b for a, b in zip(best[0], via)], [a or b for a, b in zip(best[1], nec)])
    if best is not None:
        via, nec = best
        assert all(equations(kinds, parents, via, nec, i) == (via[i], nec[i]) for i in range(n)), 'join not a solution'
    return best
