"""unparse: language specification (malc's langspec.json layout) -> MAL source text with MINIMAL
parentheses with respect to mal.g4 (the grammar is the definition of precedence here).

grammar recap
  expr : parts (setop parts)*            set operators: one level, left associative
  parts: part ('.' part)*                collect: binds tighter, left associative
  part : ('(' expr ')' | ID '(' ')' | ID) '*'? ('[' ID ']')*
  ttcexpr: term (('+'|'-') term)* ; term: fact (('*'|'/') fact)* ; fact: atom ('^' atom)? ;
  atom: dist | '(' ttcexpr ')' | number
"""

SETOPS = {'union': '\\/', 'intersection': '/\\', 'difference': '-'}


# --------------------------------------------------------------------------- step expressions

def expr(e):
    """text at `expr` level"""
    k = e['type']
    if k in SETOPS:
        return f"{expr(e['lhs'])} {SETOPS[k]} {parts(e['rhs'])}"
    return parts(e)


def parts(e):
    """text at `parts` level (no top-level set operator)"""
    k = e['type']
    if k in SETOPS:
        return '(' + expr(e) + ')'
    if k == 'collect':
        return f"{parts(e['lhs'])}.{part(e['rhs'])}"
    return part(e)


def part(e):
    """text at `part` level: base, optional star, type filters"""
    types = []
    while e['type'] == 'subType':
        types.append(e['subType'])
        e = e['stepExpression']
    types.reverse()
    star = ''
    if e['type'] == 'transitive':
        star = '*'
        e = e['stepExpression']
    k = e['type']
    if k in ('field', 'attackStep'):
        base = e['name']
    elif k == 'variable':
        base = e['name'] + '()'
    else:
        base = '(' + expr(e) + ')'
    return base + star + ''.join(f'[{t}]' for t in types)


# --------------------------------------------------------------------------- TTC

def num(v):
    if float(v) == int(v):
        return str(int(v))
    s = repr(float(v))
    if 'e' in s or 'E' in s:
        s = f'{float(v):.12f}'.rstrip('0')
    return s


def ttc(e):
    k = e['type']
    if k in ('addition', 'subtraction'):
        return f"{ttc(e['lhs'])} {'+' if k == 'addition' else '-'} {ttc_term(e['rhs'])}"
    return ttc_term(e)


def ttc_term(e):
    k = e['type']
    if k in ('addition', 'subtraction'):
        return '(' + ttc(e) + ')'
    if k in ('multiplication', 'division'):
        return f"{ttc_term(e['lhs'])} {'*' if k == 'multiplication' else '/'} {ttc_fact(e['rhs'])}"
    return ttc_fact(e)


def ttc_fact(e):
    k = e['type']
    if k in ('addition', 'subtraction', 'multiplication', 'division'):
        return '(' + ttc(e) + ')'
    if k == 'exponentiation':
        return f"{ttc_atom(e['lhs'])} ^ {ttc_atom(e['rhs'])}"
    return ttc_atom(e)


def ttc_atom(e):
    k = e['type']
    if k == 'function':
        if e['arguments']:
            return f"{e['name']}({', '.join(num(a) for a in e['arguments'])})"
        return e['name']
    if k == 'number':
        return num(e['value'])
    return '(' + ttc(e) + ')'


# --------------------------------------------------------------------------- declarations

STEP_SYM = {'or': '|', 'and': '&', 'defense': '#', 'exist': 'E', 'notExist': '!E'}


def mult(m):
    lo, hi = m['min'], m['max']
    if hi is None:
        return '*' if lo == 0 else f'{lo}..*'
    if lo == hi:
        return str(lo)
    return f'{lo}..{hi}'


def meta(d, indent):
    return ''.join(f'\n{indent}{k} info: "{v}"' for k, v in d.items())


def step(s, indent='    '):
    out = f"{indent}{STEP_SYM[s['type']]} {s['name']}"
    for t in s['tags']:
        out += f' @{t}'
    if s.get('risk'):
        cia = [c for c, k in (('C', 'isConfidentiality'), ('I', 'isIntegrity'), ('A', 'isAvailability'))
               if s['risk'].get(k)]
        out += ' {' + ', '.join(cia) + '}'
    if s['ttc'] is not None:
        out += f" [{ttc(s['ttc'])}]"
    out += meta(s['meta'], indent + '  ')
    if s['requires'] is not None:
        out += f"\n{indent}  <- " + ', '.join(expr(e) for e in s['requires']['stepExpressions'])
    if s['reaches'] is not None:
        arrow = '->' if s['reaches']['overrides'] else '+>'
        out += f"\n{indent}  {arrow} " + ', '.join(expr(e) for e in s['reaches']['stepExpressions'])
    return out


def asset(a, indent='  '):
    out = indent + ('abstract ' if a['isAbstract'] else '') + 'asset ' + a['name']
    if a['superAsset']:
        out += ' extends ' + a['superAsset']
    out += meta(a['meta'], indent + '  ')
    out += ' {\n'
    for v in a['variables']:
        out += f"{indent}  let {v['name']} = {expr(v['stepExpression'])}\n"
    for s in a['attackSteps']:
        out += step(s, indent + '  ') + '\n'
    out += indent + '}\n'
    return out


def association(a, indent='  '):
    return (f"{indent}{a['leftAsset']} [{a['leftField']}] {mult(a['leftMultiplicity'])} <-- {a['name']} --> "
            f"{mult(a['rightMultiplicity'])} [{a['rightField']}] {a['rightAsset']}" + meta(a['meta'], indent + '  ') + '\n')


def declarations(sp):
    """list of top-level declaration texts, in an order that reproduces the spec's list orders"""
    out = []
    for k, v in sp['defines'].items():
        out.append(f'#{k}: "{v}"\n')
    catmeta = {c['name']: c['meta'] for c in sp['categories']}
    used = set()
    i = 0
    assets = sp['assets']
    # categories without assets, in their listed position, are emitted when first met
    order = [c['name'] for c in sp['categories']]
    emitted = []
    while i < len(assets):
        cat = assets[i]['category']
        j = i
        while j < len(assets) and assets[j]['category'] == cat:
            j += 1
        # empty categories listed before this one
        for c in order:
            if c == cat:
                break
            if c not in emitted and not any(a['category'] == c for a in assets):
                out.append(f'category {c}' + meta(catmeta.get(c, {}), '  ') + ' {\n}\n')
                emitted.append(c)
        out.append(f'category {cat}' + meta(catmeta.get(cat, {}), '  ') + ' {\n' +
                   ''.join(asset(a) for a in assets[i:j]) + '}\n')
        emitted.append(cat)
        used.add(cat)
        i = j
    for c in order:
        if c not in emitted:
            out.append(f'category {c}' + meta(catmeta.get(c, {}), '  ') + ' {\n}\n')
            emitted.append(c)
    if sp['associations']:
        out.append('associations {\n' + ''.join(association(a) for a in sp['associations']) + '}\n')
    return out


def unparse(sp):
    return ''.join(declarations(sp))
