"""ref_sem / ref_lang: MAL set semantics of step expressions over a plain model, static typing of
expressions over a plain language spec, and the bounded-exhaustive expression generator.

Plain model:  {'assets': {name: type}, 'links': [(lf, [names]), (rf, [names])...]} - see PlainModel.
No maltoolbox imports.
"""
from ..langs import ancestors


class Lang:
    """Static view of a language spec (ref_lang)."""

    def __init__(self, sp):
        self.sp = sp
        self.par = {a['name']: a['superAsset'] for a in sp['assets']}
        self.assets = {a['name']: a for a in sp['assets']}
        self.anc = {t: ancestors(sp, t) for t in self.assets}

    def is_sub(self, t, u):
        return u in self.anc[t]

    def lca(self, t, u):
        for x in self.anc[t]:
            if x in self.anc[u]:
                return x
        return None

    def subtypes(self, t):
        return [u for u in self.assets if self.is_sub(u, t)]

    def fields(self, t):
        """field name -> target type, for fields usable from static type t (own or inherited)."""
        out = {}
        for a in self.sp['associations']:
            if self.is_sub(t, a['leftAsset']):
                out.setdefault(a['rightField'], a['rightAsset'])
            if self.is_sub(t, a['rightAsset']):
                out.setdefault(a['leftField'], a['leftAsset'])
        return out

    def variable(self, t, name):
        for x in self.anc[t]:
            for v in self.assets[x]['variables']:
                if v['name'] == name:
                    return v['stepExpression']
        return None

    def variables(self, t):
        out = {}
        for x in reversed(self.anc[t]):
            for v in self.assets[x]['variables']:
                out[v['name']] = (x, v['stepExpression'])
        return out

    def steps(self, t):
        """names of steps defined or inherited by t"""
        out = []
        for x in reversed(self.anc[t]):
            for s in self.assets[x]['attackSteps']:
                if s['name'] not in out:
                    out.append(s['name'])
        return out

    def type_of(self, e, t):
        """static target type of e from t (malc's rules), None if ill-typed"""
        k = e['type']
        if k == 'field':
            return self.fields(t).get(e['name'])
        if k == 'attackStep':
            return t
        if k == 'collect':
            m = self.type_of(e['lhs'], t)
            return None if m is None else self.type_of(e['rhs'], m)
        if k in ('union', 'intersection', 'difference'):
            a, b = self.type_of(e['lhs'], t), self.type_of(e['rhs'], t)
            if a is None or b is None:
                return None
            return self.lca(a, b)
        if k == 'variable':
            for x in self.anc[t]:
                for v in self.assets[x]['variables']:
                    if v['name'] == e['name']:
                        return self.type_of(v['stepExpression'], x)
            return None
        if k == 'transitive':
            r = self.type_of(e['stepExpression'], t)
            return r if r is not None and self.is_sub(t, r) else None
        if k == 'subType':
            r = self.type_of(e['stepExpression'], t)
            u = e['subType']
            return u if r is not None and u in self.assets and self.is_sub(u, r) else None
        return None


class PlainModel:
    """assets: ordered list of (name, type); links: list of (cls, lf, [names], rf, [names])."""

    def __init__(self, assets, links):
        self.assets = list(assets)
        self.types = dict(assets)
        self.links = list(links)

    def nb(self, name, field):
        s = set()
        for _cls, lf, L, rf, R in self.links:
            if name in L and field == rf:
                s |= set(R)
            if name in R and field == lf:
                s |= set(L)
        return s

    def describe(self):
        return {'assets': self.assets, 'links': [list(l) for l in self.links]}


def ev(lang, pm, e, lo, hi, trace=None, memo=None):
    """Interval evaluation: returns (lo, hi) sets of asset names reached from the start sets.

    For every resolution of the 'does * include the start' ambiguity the true result R satisfies
    lo <= R <= hi.  ``trace`` collects (expr, input, output) for localisation."""
    if memo is None:
        memo = {}        # (expression, start asset) -> result of a set operator, for this evaluation only
    k = e['type']
    if k == 'field':
        f = e['name']
        r = (set().union(*[pm.nb(x, f) for x in lo]) if lo else set(),
             set().union(*[pm.nb(x, f) for x in hi]) if hi else set())
    elif k == 'collect':
        a = ev(lang, pm, e['lhs'], lo, hi, trace, memo)
        r = ev(lang, pm, e['rhs'], a[0], a[1], trace, memo)
    elif k in ('union', 'intersection', 'difference'):
        # MAL evaluates a step expression per asset: the operator is applied to each start asset
        # separately and the results are collected (for union this equals the pooled reading)
        def one(x):
            key = (id(e), x)
            if key not in memo:
                a, b = ev(lang, pm, e['lhs'], {x}, {x}, None, memo), ev(lang, pm, e['rhs'], {x}, {x}, None, memo)
                if k == 'union':
                    memo[key] = (a[0] | b[0], a[1] | b[1])
                elif k == 'intersection':
                    memo[key] = (a[0] & b[0], a[1] & b[1])
                else:
                    memo[key] = (a[0] - b[1], a[1] - b[0])
            return memo[key]
        rl, rh = set(), set()
        for x in lo:
            rl |= one(x)[0]
        for x in hi:
            rh |= one(x)[1]
        r = (rl, rh)
        if trace is not None and len(hi) == 1:
            x = next(iter(hi))
            ev(lang, pm, e['lhs'], {x}, {x}, trace, memo)
            ev(lang, pm, e['rhs'], {x}, {x}, trace, memo)
    elif k == 'subType':
        a = ev(lang, pm, e['stepExpression'], lo, hi, trace, memo)
        u = e['subType']
        r = ({x for x in a[0] if lang.is_sub(pm.types[x], u)},
             {x for x in a[1] if lang.is_sub(pm.types[x], u)})
    elif k == 'variable':
        def one(S, idx):
            out = set()
            for x in S:
                out |= ev(lang, pm, lang.variable(pm.types[x], e['name']), {x}, {x}, None, memo)[idx]
            return out
        r = (one(lo, 0), one(hi, 1))
    elif k == 'transitive':
        inner = e['stepExpression']

        def plus(S, idx):
            seen, frontier = set(), set(S)
            while frontier:
                nxt = ev(lang, pm, inner, frontier, frontier, None, memo)[idx]
                frontier = nxt - seen
                seen |= nxt
            return seen
        r = (plus(lo, 0), plus(hi, 1) | set(hi))
    else:
        raise ValueError(k)
    if trace is not None:
        trace.append((e, set(lo), set(hi), r))
    return r


def _exact(e):
    """True iff e contains no transitive operator (lo == hi whenever inputs are exact)."""
    if e['type'] == 'transitive':
        return False
    return all(_exact(v) for v in e.values() if isinstance(v, dict))


def has(e, kind):
    if e['type'] == kind:
        return True
    return any(has(v, kind) for v in e.values() if isinstance(v, dict))


def ops_in(e):
    out = {e['type']}
    for v in e.values():
        if isinstance(v, dict):
            out |= ops_in(v)
    return out


# --------------------------------------------------------------------------- generator

def _pointwise_sensitive(lang, e, owner=None):
    """True iff e contains an intersection or difference (directly or through a variable)."""
    if e['type'] in ('intersection', 'difference'):
        return True
    if e['type'] == 'variable':
        for a in lang.sp['assets']:
            for v in a['variables']:
                if v['name'] == e['name'] and _pointwise_sensitive(lang, v['stepExpression']):
                    return True
    return any(_pointwise_sensitive(lang, v) for v in e.values() if isinstance(v, dict))


def gen(lang, t, k, atoms=None, single=True, _memo=None):
    """All well-typed expressions from static type t with exactly k operator nodes
    (collect, union, intersection, difference, transitive, subType, variable).
    Yields (expr, result_type).

    Restrictions (each keeps the oracle unambiguous, see DESIGN C01 'not demanded'):
    * collect is generated left-nested only (the form the compiler produces);
    * subType only with proper subtypes;
    * transitive only over operands without a nested transitive operator.
    Set operators are generated everywhere; the reference applies them per start asset (MAL's reading)."""
    if _memo is None:
        _memo = {}
    key = (t, k, single)
    if key in _memo:
        return _memo[key]
    out = []
    if k == 0:
        for f, tt in lang.fields(t).items():
            if atoms is None or f in atoms:
                out.append(({'type': 'field', 'name': f}, tt))
    else:
        if k == 1:
            for v, (owner, body) in lang.variables(t).items():
                if atoms is None or v in atoms:
                    tt = lang.type_of(body, owner)
                    if tt:
                        out.append(({'type': 'variable', 'name': v}, tt))
        for i in range(k):
            j = k - 1 - i
            for l, lt in gen(lang, t, i, atoms, single, _memo):
                for r, rt in gen(lang, lt, j, atoms, False, _memo):
                    if r['type'] != 'collect':
                        out.append(({'type': 'collect', 'lhs': l, 'rhs': r}, rt))
                for r, rt in gen(lang, t, j, atoms, single, _memo):
                    c = lang.lca(lt, rt)
                    if c:
                        for op in ('union', 'intersection', 'difference'):
                            out.append(({'type': op, 'lhs': l, 'rhs': r}, c))
        for e, et in gen(lang, t, k - 1, atoms, False, _memo):
            if lang.is_sub(t, et) and not has(e, 'transitive') and lang.type_of(e, et) == et:
                out.append(({'type': 'transitive', 'stepExpression': e}, et))
        for e, et in gen(lang, t, k - 1, atoms, single, _memo):
            for u in lang.subtypes(et):
                if u != et:
                    out.append(({'type': 'subType', 'subType': u, 'stepExpression': e}, u))
    _memo[key] = out
    return out


def gen_upto(lang, t, k, atoms=None):
    memo = {}
    out = []
    for i in range(k + 1):
        out += gen(lang, t, i, atoms, True, memo)
    return out


def show(e):
    k = e['type']
    if k in ('field', 'attackStep'):
        return e['name']
    if k == 'variable':
        return e['name'] + '()'
    if k == 'collect':
        return f"{show(e['lhs'])}.{show(e['rhs'])}"
    if k in ('union', 'intersection', 'difference'):
        sym = {'union': '\\/', 'intersection': '/\\', 'difference': '-'}[k]
        return f"({show(e['lhs'])} {sym} {show(e['rhs'])})"
    if k == 'transitive':
        return f"({show(e['stepExpression'])})*"
    if k == 'subType':
        return f"({show(e['stepExpression'])})[{e['subType']}]"
    return '?'
