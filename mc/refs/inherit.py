"""ref_inherit: the attack steps a type exposes = its ancestors' declarations folded root-down.
Two independently written formulations; checks assert they agree on every enumerated language."""
import copy

from ..langs import ancestors


def resolve(sp, t):
    """root-down fold.  -> {step name: {'decl': step dict of the defining declaration,
    'reaches': [expr, ...], 'owner': type that supplied 'decl'}} in first-definition order."""
    assets = {a['name']: a for a in sp['assets']}
    out = {}
    for x in reversed(ancestors(sp, t)):
        for s in assets[x]['attackSteps']:
            n = s['name']
            if n not in out:
                out[n] = {'decl': copy.deepcopy(s), 'owner': x,
                          'reaches': copy.deepcopy(s['reaches']['stepExpressions']) if s['reaches'] else []}
            elif s['reaches'] is None:
                continue
            elif s['reaches']['overrides']:
                out[n] = {'decl': copy.deepcopy(s), 'owner': x,
                          'reaches': copy.deepcopy(s['reaches']['stepExpressions'])}
            else:
                out[n]['reaches'] = out[n]['reaches'] + copy.deepcopy(s['reaches']['stepExpressions'])
    return out


def resolve_bottom_up(sp, t, name):
    """second formulation: walk up from t to the nearest declaration that overrides (or to the
    first definition), then concatenate the '+>' expressions met on the way, root side first.
    -> list of expressions, or None if the step is not exposed by t"""
    assets = {a['name']: a for a in sp['assets']}
    chain = ancestors(sp, t)            # t, parent, ..., root
    decls = []                          # (distance from t, decl)
    for x in chain:
        for s in assets[x]['attackSteps']:
            if s['name'] == name:
                decls.append(s)
    if not decls:
        return None
    # decls is ordered leaf -> root; the topmost one is the first definition
    tail = []
    for i, s in enumerate(decls):
        first_def = i == len(decls) - 1
        if s['reaches'] is None:
            if first_def:
                return _flatten(reversed(tail))
            continue
        if s['reaches']['overrides'] or first_def:
            tail.append(s['reaches']['stepExpressions'])
            return _flatten(reversed(tail))
        tail.append(s['reaches']['stepExpressions'])
    return _flatten(reversed(tail))


def _flatten(groups):
    out = []
    for g in groups:
        out.extend(copy.deepcopy(g))
    return out
