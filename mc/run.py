"""CLI:  /venv/bin/python -m mc.run C05 --tier quick|thorough   [--replay FILE]"""
import argparse
import importlib
import os
import sys


def main():
    ap = argparse.ArgumentParser()
    ap.add_argument('prop')
    ap.add_argument('--tier', default=os.environ.get('VERIF_TIER') or 'quick',
                    choices=['quick', 'thorough'])
    ap.add_argument('--replay')
    args = ap.parse_args()
    from . import sandbox
    prop = args.prop.upper()
    if prop != 'C16' or True:
        sandbox.reexec_with_hashseed('0')
    sandbox.enter()
    try:
        seed = int(os.environ.get('VERIF_SEED', '0') or 0)
    except ValueError:
        seed = 0
    mod = importlib.import_module(f'mc.checks.{prop.lower()}')
    if args.replay:
        sys.exit(mod.replay(args.replay))
    sys.exit(mod.run(args.tier, seed))


if __name__ == '__main__':
    main()
