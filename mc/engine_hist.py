"""Engine H: explicit-state breadth-first search over API-call histories on the real objects.

A state is identified by the history reaching it (live objects cannot be copied), so expanding a
state replays its history on fresh objects once per enabled operation.  The reference model is
stepped in lock-step by ``System.step``; ``System.key`` is the canonical key used for dedup.

Deviation bounding: every operation carries a cost (0 = default behaviour, 1 = deviation); only
histories with total cost <= K are explored.  A state already expanded is re-expanded when it is
reached again with a strictly smaller deviation total, so every history with <= D steps and <= K
deviations is dominated by an expanded (state, depth' <= depth, deviations' <= deviations).
"""
from . import common


class System:
    """Interface a check implements."""

    def fresh(self):                     # -> ctx with brand-new real objects + reference state
        raise NotImplementedError

    def enabled(self, ctx):              # -> list of (op, deviation_cost); op = plain tuple
        raise NotImplementedError

    def step(self, ctx, op, checking):   # apply op to real + reference; raise Violation if checking
        raise NotImplementedError

    def key(self, ctx):                  # canonical state key (str)
        raise NotImplementedError

    def invariant(self, ctx):            # extra per-state checks; raise Violation
        pass

    def outcome(self, ctx, op):          # coarse label of what the last step did (vacuity guard)
        return getattr(ctx, 'last_outcome', None)


_SYS = {}


def _system(factory, arg):
    k = (factory.__module__, factory.__qualname__, repr(arg))
    if k not in _SYS:
        _SYS[k] = factory(arg)
    return _SYS[k]


def replay(system, hist, upto=None):
    ctx = system.fresh()
    for op in hist[:upto]:
        system.step(ctx, op, False)
    return ctx


def _expand(job):
    factory, arg, K, items = job
    out, viols, counts, outcomes = [], [], {}, set()
    try:
        system = _system(factory, arg)
    except common.Violation as v:        # e.g. the (well-formed) language of this system cannot be loaded
        v.case = v.case or {'system': repr(arg)}
        return out, [v.to_json()], counts, outcomes
    for hist, devs, expect_key in items:
        ctx = replay(system, hist)
        k0 = system.key(ctx)
        if expect_key is not None and k0 != expect_key:
            # Re-executing the same history on brand-new objects gave a different complete state.  The harness
            # owns every source of nondeterminism (checked on the unchanged tree under several seeds), so this
            # means state leaks between independent objects of the library (class / module level state, a shared
            # mutable default): report it, twice-confirmed, instead of dying.
            ctx_b = replay(system, hist)
            viols.append(common.Violation(
                'replay_divergence:state_leaks_between_fresh_objects',
                'the same history replayed on fresh objects reaches a different state than when it was first executed '
                '(state shared between independent objects)' + ('' if system.key(ctx_b) == k0 else ' - and differs again'),
                case={'system': repr(arg), 'history': list(hist), 'op': None}).to_json())
            continue
        spare = None                 # a context known to be in exactly the state of `hist` (see below)
        for op, cost in system.enabled(ctx):
            if devs + cost > K:
                counts['skipped_over_budget'] = counts.get('skipped_over_budget', 0) + 1
                continue
            ctx2, spare = (spare, None) if spare is not None else (replay(system, hist), None)
            try:
                system.step(ctx2, op, True)
                system.invariant(ctx2)
            except common.Violation as v:
                v.case = {'system': repr(arg), 'history': list(hist), 'op': op}
                viols.append(v.to_json())
                counts['transitions'] = counts.get('transitions', 0) + 1
                continue
            except common.Undetermined:
                counts['transitions'] = counts.get('transitions', 0) + 1
                counts['undetermined_leaves'] = counts.get('undetermined_leaves', 0) + 1
                continue
            counts['transitions'] = counts.get('transitions', 0) + 1
            name = 'op:' + str(op[0])
            counts[name] = counts.get(name, 0) + 1
            outcomes.add((op[0], system.outcome(ctx2, op)))
            k2 = system.key(ctx2)
            out.append((hist + (op,), devs + cost, k2))
            if k2 == k0 and getattr(system, 'reuse_unchanged', False):
                # the operation left the complete canonical state unchanged (a rejected or vacuous call):
                # the context is still an exact copy of the state of `hist`, no need to replay for the next op
                spare = ctx2
                counts['replays_saved'] = counts.get('replays_saved', 0) + 1
    return out, viols, counts, outcomes


def explore(factory, arg, depth, K, result, seed=0, shard=64, label=''):
    """Level-synchronous BFS.  Returns dict key -> (history, devs) of all distinct states."""
    try:
        system = _system(factory, arg)
        ctx0 = system.fresh()
        system.invariant(ctx0)
    except common.Violation as v:
        v.case = v.case or {'system': repr(arg), 'history': [], 'op': None}
        result.add_violation(v)
        return {}
    k0 = system.key(ctx0)
    best = {k0: 0}                  # key -> smallest deviation total it was expanded with
    reps = {k0: ((), 0)}
    frontier = [((), 0, k0)]
    closed_at = None
    outcomes = set()
    for d in range(depth):
        if not frontier:
            closed_at = d
            break
        frontier = common.rotate(frontier, seed)
        jobs = [(factory, arg, K, frontier[i:i + shard]) for i in range(0, len(frontier), shard)]
        nxt = {}
        for out, viols, counts, outc in common.pmap(_expand, jobs):
            result.merge_counts(counts)
            result.add_violations(viols)
            outcomes |= outc
            for hist, devs, k in out:
                if k in best and best[k] <= devs:
                    continue
                cur = nxt.get(k)
                if cur is None or (devs, repr(hist)) < (cur[1], repr(cur[0])):
                    nxt[k] = (hist, devs, k)
        for k, (hist, devs, _) in nxt.items():
            best[k] = devs
            if k not in reps:
                reps[k] = (hist, devs)
        frontier = sorted(nxt.values(), key=lambda t: (t[1], repr(t[0])))
        result.bounds.setdefault('levels' + label, []).append(len(frontier))
    else:
        if not frontier:
            closed_at = depth
    result.bounds['closed_at_depth' + label] = closed_at
    result.bounds['depth' + label] = depth
    result.bounds['K' + label] = K
    result.count('states', len(best))
    result.extra.setdefault('distinct_outcomes', 0)
    result.extra['distinct_outcomes'] += len(outcomes)
    return reps
