"""Generic canonical form of live maltoolbox object graphs (DESIGN 2.2).

Two object graphs get the same key iff they are equal up to a renaming of object identities.
The walker names no private maltoolbox attribute: it follows ``__dict__``, containers and
python_jsonschema_objects' property stores.  Language fixtures are replaced by a token (their
integrity is checked separately).
"""
import hashlib


def _is_pjs_obj(x):
    return hasattr(x, '_properties') and hasattr(x, '_extended_properties')


def canon(root, skip_types=('LanguageGraph', 'LanguageClassesFactory')):
    handles = {}
    out = []

    def walk(x):
        if x is None or isinstance(x, (bool, int, float, str)):
            return (type(x).__name__, x)
        tn = type(x).__name__
        if tn in skip_types:
            return ('fixture', tn)
        if hasattr(x, '_value') and not _is_pjs_obj(x):      # pjs LiteralValue
            return ('lit', walk(x._value))
        if isinstance(x, (list, tuple)):
            return ('seq', tuple(walk(v) for v in x))
        if hasattr(x, 'data') and hasattr(x, 'typed_elems'):  # pjs ArrayWrapper
            return ('seq', tuple(walk(v) for v in x.data))
        if isinstance(x, dict) or tn in ('dict_keys',):
            if tn == 'dict_keys':
                return ('seq', tuple(walk(v) for v in x))
            return ('map', tuple((walk(k), walk(v)) for k, v in x.items()))
        if isinstance(x, (set, frozenset)):
            return ('set', tuple(sorted((walk(v) for v in x), key=repr)))
        i = id(x)
        if i in handles:
            return ('ref', handles[i])
        h = handles[i] = len(handles)
        if _is_pjs_obj(x):
            body = ('pjs', tn,
                    tuple((k, walk(v)) for k, v in x._properties.items()),
                    tuple((k, walk(v)) for k, v in sorted(x._extended_properties.items())))
        elif hasattr(x, '__dict__'):
            body = ('obj', tn, tuple((k, walk(v)) for k, v in vars(x).items()))
        else:
            body = ('opaque', tn, repr(x))
        out.append((h, body))
        return ('ref', h)

    top = walk(root)
    return (top, tuple(out))


def key(root):
    return hashlib.md5(repr(canon(root)).encode()).hexdigest()
