"""Bounded-exhaustive enumeration of plain instance models and construction of the real Model."""
import itertools

from .refs.sem import PlainModel


def assoc_table(sp):
    names = [a['name'] for a in sp['associations']]
    out = []
    for a in sp['associations']:
        cls = a['name']
        if names.count(cls) > 1:
            cls = f"{a['name']}_{a['leftAsset']}_{a['rightAsset']}"
            if any(o['cls'] == cls for o in out):
                # same name and same asset types: the field names tell the classes apart
                cls += f"_{a['leftField']}_{a['rightField']}"
        out.append({'cls': cls, 'lf': a['leftField'], 'rf': a['rightField'],
                    'lt': a['leftAsset'], 'rt': a['rightAsset'],
                    'lmax': a['leftMultiplicity']['max'], 'rmax': a['rightMultiplicity']['max']})
    return out


def _sides(cands, mx, two):
    out = [(h,) for h in cands]
    if two and (mx is None or mx >= 2):
        out += [(a, b) for i, a in enumerate(cands) for b in cands[i + 1:]]
    return out


def candidate_links(lang, assets, table, two_member=True):
    """every association instance (cls, lf, L, rf, R) with 1-2 members per side over the assets"""
    out = []
    for ac in table:
        lc = [n for n, t in assets if lang.is_sub(t, ac['lt'])]
        rc = [n for n, t in assets if lang.is_sub(t, ac['rt'])]
        for L in _sides(lc, ac['lmax'], two_member):
            for R in _sides(rc, ac['rmax'], two_member):
                out.append((ac['cls'], ac['lf'], list(L), ac['rf'], list(R)))
    return out


def _conflict(x, y):
    """two instances of one class linking the same (l, r) pair: the model rejects the second"""
    if x[0] != y[0]:
        return False
    return any(l in y[2] for l in x[2]) and any(r in y[4] for r in x[4])


def enum_models(lang, sp, types, n_max, l_max, two_member=True, ordered_types=False,
                n_min=1):
    """All models with n_min..n_max assets (types drawn from ``types``; as sorted multisets
    unless ordered_types) and 0..l_max association instances (unordered sets)."""
    table = assoc_table(sp)
    for n in range(n_min, n_max + 1):
        seqs = (itertools.product(range(len(types)), repeat=n) if ordered_types else
                itertools.combinations_with_replacement(range(len(types)), n))
        for seq in seqs:
            assets = [(f'{types[t][0].lower()}{i}', types[t]) for i, t in enumerate(seq)]
            cands = candidate_links(lang, assets, table, two_member)
            for l in range(0, l_max + 1):
                for combo in itertools.combinations(cands, l):
                    if any(_conflict(x, y) for i, x in enumerate(combo) for y in combo[i + 1:]):
                        continue
                    yield PlainModel(assets, combo)


def build(fx, pm, name='m', defenses=None, reverse_links=False):
    """Real Model from a PlainModel through the public API. -> (model, {name: asset})"""
    from maltoolbox.model import Model
    from .common import Violation
    m = Model(name, fx.factory)
    objs = {}
    # every model handed to this function is valid in its language: failing to build it is a verdict, not a crash
    try:
        for n, t in pm.assets:
            kw = dict((defenses or {}).get(n, {}))
            o = getattr(fx.ns, t)(name=n, **kw)
            m.add_asset(o)
            objs[n] = o
        links = list(pm.links)
        if reverse_links:
            links.reverse()
        for cls, lf, L, rf, R in links:
            m.add_association(getattr(fx.ns, cls)(**{lf: [objs[x] for x in L], rf: [objs[x] for x in R]}))
    except RecursionError:
        raise
    except Exception as e:  # noqa: BLE001
        raise Violation(f'valid_model_rejected:{type(e).__name__}',
                        f'a model that is valid in its language could not be built through the API: {str(e)[:300]}',
                        case={'model': pm.describe()})
    return m, objs
