"""Bounded-exhaustive enumeration of plain instance models and construction of the real Model."""
import itertools

from .refs.sem import PlainModel


def resolve_class(fx, name, lf, rf, ltypes, rtypes):
    """class of the association `name` with fields lf / rf whose declared end types fit the member types;
    asks the factory (by content), so that no naming convention for colliding names is assumed"""
    from . import langs
    sp = fx.pristine
    for a in sp['associations']:
        if a['name'] == name and a['leftField'] == lf and a['rightField'] == rf and \
                all(langs.is_sub(sp, t, a['leftAsset']) for t in ltypes) and all(langs.is_sub(sp, t, a['rightAsset']) for t in rtypes):
            return fx.factory.get_association_by_signature(name, a['leftAsset'], a['rightAsset'], lf, rf)
    raise LookupError(f'no association {name} [{lf}/{rf}] in the specification')


def assoc_table(sp, factory=None):
    """with a factory, the classes of duplicated names are asked for by content (fields and end types)"""
    if factory is not None:
        out = []
        names = [a['name'] for a in sp['associations']]
        for row, a in zip(assoc_table(sp), sp['associations']):
            if names.count(a['name']) > 1:
                try:
                    row = dict(row, cls=factory.get_association_by_signature(
                        a['name'], a['leftAsset'], a['rightAsset'], a['leftField'], a['rightField']))
                except Exception:      # noqa: BLE001  (no field names accepted / lookup fails: keep the conventional
                    pass               # name - a missing class is reported by the check that uses the table)
            out.append(row)
        return out
    names = [a['name'] for a in sp['associations']]
    out = []
    taken = set(names)
    for a in sp['associations']:
        cls = a['name']
        if names.count(cls) > 1:
            cls = f"{a['name']}_{a['leftAsset']}_{a['rightAsset']}"
            if cls in taken:
                # name taken (same name and asset types, or joined names that coincide): the field names are appended
                cls += f"_{a['leftField']}_{a['rightField']}"
            base, k = cls, 2
            while cls in taken:
                cls, k = f'{base}_{k}', k + 1
            taken.add(cls)
        out.append({'cls': cls, 'lf': a['leftField'], 'rf': a['rightField'],
                    'lt': a['leftAsset'], 'rt': a['rightAsset'],
                    'lmax': a['leftMultiplicity']['max'], 'rmax': a['rightMultiplicity']['max']})
    return out


def _sides(cands, mx, two):
    out = [(h,) for h in cands]
    if two and (mx is None or mx >= 2):
        out += [(a, b) for i, a in enumerate(cands) for b in cands[i + 1:]]
    return out


def candidate_links(lang, assets, table, two_member=True):
    """every association instance (cls, lf, L, rf, R) with 1-2 members per side over the assets"""
    out = []
    for ac in table:
        lc = [n for n, t in assets if lang.is_sub(t, ac['lt'])]
        rc = [n for n, t in assets if lang.is_sub(t, ac['rt'])]
        for L in _sides(lc, ac['lmax'], two_member):
            for R in _sides(rc, ac['rmax'], two_member):
                out.append((ac['cls'], ac['lf'], list(L), ac['rf'], list(R)))
    return out


def _conflict(x, y):
    """two instances of one class linking the same (l, r) pair: the model rejects the second"""
    if x[0] != y[0]:
        return False
    return any(l in y[2] for l in x[2]) and any(r in y[4] for r in x[4])


def enum_models(lang, sp, types, n_max, l_max, two_member=True, ordered_types=False,
                n_min=1):
    """All models with n_min..n_max assets (types drawn from ``types``; as sorted multisets
    unless ordered_types) and 0..l_max association instances (unordered sets)."""
    table = assoc_table(sp)
    for n in range(n_min, n_max + 1):
        seqs = (itertools.product(range(len(types)), repeat=n) if ordered_types else
                itertools.combinations_with_replacement(range(len(types)), n))
        for seq in seqs:
            assets = [(f'{types[t][0].lower()}{i}', types[t]) for i, t in enumerate(seq)]
            cands = candidate_links(lang, assets, table, two_member)
            for l in range(0, l_max + 1):
                for combo in itertools.combinations(cands, l):
                    if any(_conflict(x, y) for i, x in enumerate(combo) for y in combo[i + 1:]):
                        continue
                    yield PlainModel(assets, combo)


def build(fx, pm, name='m', defenses=None, reverse_links=False):
    """Real Model from a PlainModel through the public API. -> (model, {name: asset})"""
    from maltoolbox.model import Model
    from .common import Violation
    m = Model(name, fx.factory)
    objs = {}
    # every model handed to this function is valid in its language: failing to build it is a verdict, not a crash
    try:
        for n, t in pm.assets:
            kw = dict((defenses or {}).get(n, {}))
            o = getattr(fx.ns, t)(name=n, **kw)
            m.add_asset(o)
            objs[n] = o
        links = list(pm.links)
        if reverse_links:
            links.reverse()
        types = dict(pm.assets)
        for cls, lf, L, rf, R in links:
            if cls.startswith('?'):
                cls = resolve_class(fx, cls[1:], lf, rf, [types[x] for x in L], [types[x] for x in R])
            m.add_association(getattr(fx.ns, cls)(**{lf: [objs[x] for x in L], rf: [objs[x] for x in R]}))
    except RecursionError:
        raise
    except Exception as e:  # noqa: BLE001
        raise Violation(f'valid_model_rejected:{type(e).__name__}',
                        f'a model that is valid in its language could not be built through the API: {str(e)[:300]}',
                        case={'model': pm.describe()})
    return m, objs
