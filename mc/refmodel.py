"""Abstract reference of the instance model (DESIGN 2.4 ref_model) and the lock-step system that
drives maltoolbox.model.Model against it (engine H).  Used by C05 and, for state generation, by
C07 / C18 / C19.

Reference state (plain Python, no maltoolbox):
  assets    handle -> {id, name, type}
  assocs    handle -> {cls, lf, rf, L: [asset handles], R: [asset handles]}
  attackers handle -> {id, name, eps: {asset handle: [step names]}}
Handles are creation indexes of the harness' own objects; removed objects keep their handle so
that invalid calls on them stay expressible.
"""
from . import canon
from .common import Undetermined, Violation
from .engine_hist import System

MUST_RAISE, MUST_SUCCEED, ANY_UNCHANGED = 'must_raise', 'must_succeed', 'any_unchanged'


class Ctx:
    pass


class ModelSystem(System):
    """Alphabet, reference and oracle for histories of Model / AttackerAttachment calls."""
    reuse_unchanged = True

    def __init__(self, cfg):
        from . import langs
        self.cfg = cfg
        self.fx = langs.fixture(cfg['spec'])
        self.types = cfg['types']                  # asset types used by add_asset
        self.max_assets = cfg.get('max_assets', 3)
        self.max_assocs = cfg.get('max_assocs', 3)
        self.max_attackers = cfg.get('max_attackers', 2)
        self.ep_steps = cfg.get('ep_steps', ['access', 'root'])
        self.pair_classes = set(cfg.get('pair_classes', []))   # classes explored with 2-member sides
        self.invalid_ops = cfg.get('invalid_ops', True)
        self.graph_oracle = cfg.get('graph_oracle', False)
        sp = cfg['spec']
        self.par = {a['name']: a['superAsset'] for a in sp['assets']}
        # association classes as the factory names them, with declared ends
        self.assoc_classes = []
        names = [a['name'] for a in sp['associations']]
        for a in sp['associations']:
            cls = a['name']
            if names.count(cls) > 1:
                cls = f"{a['name']}_{a['leftAsset']}_{a['rightAsset']}"
            self.assoc_classes.append({
                'cls': cls, 'lf': a['leftField'], 'rf': a['rightField'],
                'lt': a['leftAsset'], 'rt': a['rightAsset'],
                'lmax': a['leftMultiplicity']['max'], 'rmax': a['rightMultiplicity']['max']})
        self.fields = sorted({c['lf'] for c in self.assoc_classes} |
                             {c['rf'] for c in self.assoc_classes})

    # ---------------------------------------------------------------- helpers
    def is_sub(self, t, u):
        while t:
            if t == u:
                return True
            t = self.par.get(t)
        return False

    def fresh(self):
        from maltoolbox.model import Model
        if not self.fx.intact():
            from . import langs
            self.fx = langs.fixture(self.cfg['spec'], fresh=True)
        c = Ctx()
        c.model = Model('m', self.fx.factory)
        c.assets, c.assocs, c.attackers = [], [], []          # real objects by handle
        c.r_assets, c.r_assocs, c.r_attackers = {}, {}, {}    # live reference entries by handle
        c.ever_ids, c.ever_names = set(), set()
        c.freed_ids, c.freed_names = [], []
        c.n_ops = 0
        c.last_outcome = None
        # non-initial start state: a fixed prefix of (valid) calls replayed on every fresh context
        for op in self.cfg.get('prefix', ()):
            self.step(c, tuple(op), False)
        return c

    # ---------------------------------------------------------------- alphabet
    def enabled(self, c):
        ops = []
        live_ids = {a['id'] for a in c.r_assets.values()}
        live_names = {a['name'] for a in c.r_assets.values()}
        maxid = max(list(c.ever_ids) + [x['id'] for x in c.r_attackers.values()] + [-1])
        if len(c.r_assets) < self.max_assets:
            names = [(None, 0)]
            names.append(('n', 1 if ('n' in live_names or 'n' in c.ever_names) else 0))
            names.append((f'n:{maxid + 1}', 1))
            names.append((f'n:{maxid + 2}', 1))
            names.append((f'{self.types[0]}:{maxid + 2}', 1))
            for fn_ in c.freed_names[-1:]:
                if fn_ not in [n for n, _ in names] and fn_ not in live_names:
                    names.append((fn_, 1))
            ids = [(None, 0), (0, 1), (maxid + 1, 1), (maxid + 3, 1), (-1, 1)]
            for i in sorted(live_ids)[:1]:
                if i not in [x for x, _ in ids]:
                    ids.append((i, 1))
            for i in c.freed_ids[-1:]:
                if i not in [x for x, _ in ids] and i not in live_ids:
                    ids.append((i, 1))
            if self.cfg.get('simple_assets'):
                names, ids = names[:2], ids[:1]
            seen = set()
            for t in self.types:
                for n, dn in names:
                    for i, di in ids:
                        for allow in (True, False):
                            # allow=False only matters together with a name; it is the deviation
                            # itself, a clashing name under it costs nothing extra
                            if not allow and n is None:
                                continue
                            cost = di + (1 if not allow else dn)
                            op = ('add_asset', t, n, i, allow)
                            if op not in seen:
                                seen.add(op)
                                ops.append((op, cost))
        for h in sorted(c.r_assets):
            ops.append((('remove_asset', h), 0))
        if self.invalid_ops:
            for h in self._stale_assets(c)[-1:]:
                ops.append((('remove_asset', h), 1))
            # the same asset object handed to add_asset again (no id / the id of another live asset / a free id)
            for h in sorted(c.r_assets)[:1]:
                others = sorted(a['id'] for g, a in c.r_assets.items() if g != h)
                ops.append((('readd_asset', h, None), 1))
                for i in others[:1]:
                    ops.append((('readd_asset', h, i), 1))
                ops.append((('readd_asset', h, maxid + 2), 1))
        # associations
        if len(c.r_assocs) < self.max_assocs:
            live = sorted(c.r_assets)
            for ac in self.assoc_classes:
                lc = [h for h in live if self.is_sub(c.r_assets[h]['type'], ac['lt'])]
                rc = [h for h in live if self.is_sub(c.r_assets[h]['type'], ac['rt'])]
                two = ac['cls'] in self.pair_classes

                def sides(cands, mx, two=two):
                    out = [((h,), 0) for h in cands]
                    if two and (mx is None or mx >= 2):
                        out += [((a, b), 0) for i, a in enumerate(cands) for b in cands[i + 1:]]
                        out += [((h, h), 1) for h in cands[:1]]       # repeated asset in a field
                    return out
                for L, dl in sides(lc, ac['lmax']):
                    for R, dr in sides(rc, ac['rmax']):
                        cost = dl + dr
                        if set(L) & set(R):
                            cost += 1                                  # self-link / both sides
                        if self._dup_link(c, ac['cls'], L, R):
                            cost += 1
                        ops.append((('add_association', ac['cls'], L, R), min(cost, 2)))
            if self.invalid_ops and live:
                # an association one of whose members is not an asset of this model: an object that was
                # removed / rejected earlier, or one that was never handed to the model at all
                for ac in self.assoc_classes[:2]:
                    lc = [h for h in live if self.is_sub(c.r_assets[h]['type'], ac['lt'])]
                    rc = [h for h in live if self.is_sub(c.r_assets[h]['type'], ac['rt'])]
                    two = ac['cls'] in self.pair_classes
                    for side, cands, other_t in (('L', lc, ac['rt']), ('R', rc, ac['lt'])):
                        if not cands:
                            continue
                        for kind in ('fresh', 'stale'):
                            ops.append((('add_association_nonmember', ac['cls'], side, cands[0], kind, False), 1))
                            if two:
                                # the live member comes first in its field and the outsider shares that field
                                ops.append((('add_association_nonmember', ac['cls'], side, cands[0], kind, True), 1))
        for h in sorted(c.r_assocs):
            ops.append((('remove_association', h), 0))
            x = c.r_assocs[h]
            for a in sorted(set(x['L']) | set(x['R'])):
                ops.append((('remove_asset_from_association', a, h), 0))
            if self.invalid_ops:
                for a in sorted(c.r_assets):
                    if a not in x['L'] and a not in x['R']:
                        ops.append((('remove_asset_from_association', a, h), 1))
                        break
        if self.invalid_ops:
            for h in self._stale_assocs(c)[-1:]:
                ops.append((('remove_association', h), 1))
                for a in sorted(c.r_assets)[:1]:
                    ops.append((('remove_asset_from_association', a, h), 1))
        if self.graph_oracle and c.r_assets:
            ops.append((('generate_graph',), 0))
        # attackers
        if len(c.r_attackers) < self.max_attackers:
            ops.append((('add_attacker', None), 0))
            ops.append((('add_attacker', maxid + 2), 1))
            if not c.r_attackers and 0 not in live_ids:
                ops.append((('add_attacker', 0), 1))
        if len(c.r_attackers) < self.max_attackers and c.r_assets:
            # an attachment that got its entry point before it is given to the model
            ops.append((('add_attacker_prefilled', sorted(c.r_assets)[0]), 0))
            # ... built by hand with two entry-point tuples for one asset
            ops.append((('add_attacker_prefilled', sorted(c.r_assets)[-1], 'split'), 1))
            if self.invalid_ops:
                for a in self._stale_assets(c)[-1:]:
                    if _has_id_and_name(c.assets[a]):
                        ops.append((('add_attacker_prefilled', a), 1))
        if self.invalid_ops:
            gone = [g for g in range(len(c.attackers)) if g not in c.r_attackers and getattr(c.attackers[g], 'id', None) is not None]
            if gone and len(c.r_attackers) < self.max_attackers:
                # an attachment that was removed from the model is added again (its entry points may meanwhile
                # name assets that are gone)
                ops.append((('readd_attacker', gone[-1]), 1))
            for g in sorted(c.r_attackers)[:1]:
                ops.append((('readd_attacker', g), 1))       # ... and one that is still in the model
        for h in sorted(c.r_attackers):
            ops.append((('remove_attacker', h), 0))
            eps = c.r_attackers[h]['eps']
            for a in sorted(c.r_assets):
                for s in self.ep_steps:
                    present = s in eps.get(a, [])
                    ops.append((('add_entry_point', h, a, s), 1 if present else 0))
                    ops.append((('remove_entry_point', h, a, s), 0 if present else 1))
        if self.invalid_ops:
            # entry points on an asset object that is not (or no longer) in the model: the attachment does not
            # know the model, so the call is accepted; later failing calls must not strip it
            for h in sorted(c.r_attackers)[:1]:
                for a in self._stale_assets(c)[-1:]:
                    if _has_id_and_name(c.assets[a]):
                        s0 = self.ep_steps[0]
                        present = s0 in c.r_attackers[h]['eps'].get(a, [])
                        ops.append((('add_entry_point', h, a, s0) if not present else ('remove_entry_point', h, a, s0), 1))
            stale = [h for h in range(len(c.attackers)) if h not in c.r_attackers]
            for h in sorted(c.r_attackers)[:1]:
                ops.append((('remove_attacker_twin', h), 1))
            for h in stale[-1:]:
                # (a stale attachment may compare equal to a live one: same id, name and entry points)
                ops.append((('remove_attacker', h), 1))
        return ops

    def _stale_assets(self, c):
        out = []
        for h in range(len(c.assets)):
            if h in c.r_assets:
                continue
            out.append(h)
        return out

    def _stale_assocs(self, c):
        out = []
        for h in range(len(c.assocs)):
            if h in c.r_assocs or c.assocs[h] is None:
                continue
            # (no value comparison with the live associations here: comparing generated objects walks
            # asset -> associations -> assets and recurses for ever on cyclic models; the model identifies
            # associations by identity, so a stale object that equals a live one is an ordinary stale object)
            out.append(h)
        return out

    def _att_equal(self, c, h, g):
        try:
            return c.attackers[h] == c.attackers[g]
        except Exception:  # noqa: BLE001
            return True

    def _dup_link(self, c, cls, L, R):
        for x in c.r_assocs.values():
            if x['cls'] == cls and any(l in x['L'] for l in L) and any(r in x['R'] for r in R):
                for l in L:
                    for r in R:
                        if l in x['L'] and r in x['R']:
                            return True
        return False

    # ---------------------------------------------------------------- observation
    def observe(self, c):
        """What a user can read, normalised to handles.  Never raises: failures are recorded."""
        m = c.model
        o = {}
        hof = {id(obj): h for h, obj in enumerate(c.assets)}
        xof = {id(obj): h for h, obj in enumerate(c.assocs) if obj is not None}
        try:
            d = m._to_dict()
            o['assets'] = {int(k): (v.get('name'), v.get('type'), tuple(sorted((v.get('defenses') or {}).items())))
                           for k, v in d['assets'].items()}
            o['n_assets'] = len(m.assets)
            al = []
            for e in d['associations']:
                ks = [k for k in e if k != 'extras']
                cls = ks[0]
                al.append((cls, tuple(sorted((f, tuple(sorted(v))) for f, v in e[cls].items()))))
            o['associations'] = sorted(al)
            o['attackers'] = {
                k: (v['name'], tuple(sorted((int(a), tuple(ep['attack_steps']))
                                            for a, ep in v['entry_points'].items())))
                for k, v in d['attackers'].items()}
            o['n_attackers'] = len(m.attackers)
        except Exception as e:  # noqa: BLE001
            o['to_dict_error'] = type(e).__name__
        o['by_id'] = {i: hof.get(id(m.get_asset_by_id(i)), None if m.get_asset_by_id(i) is None else 'foreign')
                      for i in sorted(c.ever_ids)}
        o['by_name'] = {n: hof.get(id(m.get_asset_by_name(n)), None if m.get_asset_by_name(n) is None else 'foreign')
                        for n in sorted(c.ever_names)}
        nb, aa = {}, {}
        for obj in m.assets:
            h = hof.get(id(obj), 'foreign')
            for f in self.fields:
                try:
                    r = m.get_associated_assets_by_field_name(obj, f)
                    nb[(h, f)] = tuple(sorted({hof.get(id(x), -1) for x in r}))
                except Exception as e:  # noqa: BLE001
                    nb[(h, f)] = 'ERR:' + type(e).__name__
            aa[h] = tuple(sorted({xof.get(id(x), -1) for x in obj.associations}))
        o['neighbours'] = nb
        o['asset_assocs'] = aa
        ep = {}
        for g, att in enumerate(c.attackers):
            if g in c.r_attackers:
                merged = {}
                for a, steps in att.entry_points:      # several tuples for one asset count as one entry
                    lst = merged.setdefault(hof.get(id(a), -1), [])
                    lst.extend(x for x in steps if x not in lst)
                ep[g] = tuple(sorted((h, tuple(v)) for h, v in merged.items()))
        o['entry_points'] = ep
        return o

    def expected(self, c):
        o = {}
        o['assets'] = {a['id']: (a['name'], a['type'], ()) for a in c.r_assets.values()}
        o['n_assets'] = len(c.r_assets)
        al = []
        for x in c.r_assocs.values():
            al.append((x['cls'], tuple(sorted([
                (x['lf'], tuple(sorted(c.r_assets[h]['id'] for h in x['L']))),
                (x['rf'], tuple(sorted(c.r_assets[h]['id'] for h in x['R'])))]))))
        o['associations'] = sorted(al)
        def aid(a):
            return c.r_assets[a]['id'] if a in c.r_assets else int(c.assets[a].id)
        o['attackers'] = {
            t['id']: (t['name'], tuple(sorted((aid(a), tuple(s)) for a, s in t['eps'].items())))
            for t in c.r_attackers.values()}
        if any(len({aid(a) for a in t['eps']}) != len(t['eps']) for t in c.r_attackers.values()):
            o['attackers'] = 'ambiguous'      # two entry-point assets of one attacker share an id: the dict form cannot show both
        o['n_attackers'] = len(c.r_attackers)
        idh = {a['id']: h for h, a in c.r_assets.items()}
        nmh = {a['name']: h for h, a in c.r_assets.items()}
        o['by_id'] = {i: idh.get(i) for i in sorted(c.ever_ids)}
        o['by_name'] = {n: nmh.get(n) for n in sorted(c.ever_names)}
        nb, aa = {}, {}
        for h in c.r_assets:
            for f in self.fields:
                s = set()
                for x in c.r_assocs.values():
                    if h in x['L'] and f == x['rf']:
                        s |= set(x['R'])
                    if h in x['R'] and f == x['lf']:
                        s |= set(x['L'])
                nb[(h, f)] = tuple(sorted(s))
            aa[h] = tuple(sorted(g for g, x in c.r_assocs.items() if h in x['L'] or h in x['R']))
        o['neighbours'] = nb
        o['asset_assocs'] = aa
        o['entry_points'] = {g: tuple(sorted((a, tuple(s)) for a, s in t['eps'].items()))
                             for g, t in c.r_attackers.items()}
        return o

    def compare(self, c, opname, tag='', obs=None):
        obs, exp = (obs if obs is not None else self.observe(c)), self.expected(c)
        if len(set(a['id'] for a in c.r_assets.values())) != len(c.r_assets):
            raise Violation(f'{opname}:live_ids_not_unique{tag}', 'two live assets share an id')
        if len(set(a['name'] for a in c.r_assets.values())) != len(c.r_assets):
            raise Violation(f'{opname}:live_names_not_unique{tag}', 'two live assets share a name',
                            observed=sorted(a['name'] for a in c.r_assets.values()))
        for part in ('to_dict_error', 'n_assets', 'assets', 'associations', 'n_attackers',
                     'attackers', 'by_id', 'by_name', 'asset_assocs', 'neighbours', 'entry_points'):
            if part == 'attackers' and exp.get(part) == 'ambiguous':
                continue
            if obs.get(part) != exp.get(part):
                raise Violation(f'{opname}:obs_mismatch:{part}{tag}',
                                f'after {opname}: observable {part} differs from the reference model',
                                expected=_s(exp.get(part)), observed=_s(obs.get(part)))

    # ---------------------------------------------------------------- transitions
    def step(self, c, op, checking):
        """Replays (checking=False) perform exactly the same real calls - including the read-only
        observation calls - as checked steps, so that state hidden behind read paths (caches) evolves
        identically and a replayed prefix reproduces the recorded state key."""
        kind = op[0]
        c.n_ops += 1
        # one observation per step in both modes: the one taken after the previous step is this
        # step's 'before' (nothing happens in between)
        before = getattr(c, 'last_obs', None)
        if before is None:
            before = self.observe(c)
        mode, thunk, commit, tag = getattr(self, 'op_' + kind)(c, op)
        raised = None
        try:
            thunk()
        except Exception as e:  # noqa: BLE001 - exception types are not compared
            raised = e
        c.last_outcome = (mode, 'raised' if raised is not None else 'ok')
        if mode == 'raise_unchanged_or_commit':
            # rejecting the call (nothing changes) and accepting it (the reference says what must be visible
            # then) are both fine
            mode = MUST_SUCCEED if raised is None else ANY_UNCHANGED
        if mode == MUST_SUCCEED and raised is None:
            commit(checking)
        after = c.last_obs = self.observe(c)
        if mode == MUST_RAISE:
            if raised is None:
                if checking:
                    raise Violation(f'{kind}:accepted_but_must_be_rejected:{tag}',
                                    f'{kind} {tag}: call must be rejected but succeeded')
                return
            if checking and after != before:
                raise Violation(f'{kind}:raised_but_state_changed:{tag}',
                                f'{kind} {tag} raised {type(raised).__name__} but changed the observable state',
                                expected=_s(before), observed=_s(after))
            return
        if mode == 'raise_unchanged_or_undetermined':
            if raised is None:
                raise Undetermined()
            mode = ANY_UNCHANGED
        if mode == ANY_UNCHANGED:
            if checking and after != before:
                k = 'raised_but_state_changed' if raised is not None else 'invalid_call_changed_state'
                raise Violation(f'{kind}:{k}:{tag}',
                                f'{kind} {tag} (invalid arguments) changed the observable state',
                                expected=_s(before), observed=_s(after))
            return
        # MUST_SUCCEED
        if raised is not None:
            if checking:
                changed = after != before
                raise Violation(f'{kind}:valid_call_raised:{tag}' + (':state_changed' if changed else ''),
                                f'{kind} {tag}: valid call raised {type(raised).__name__}: {raised}')
            c.broken = True
            return
        if checking:                      # (taken after commit: the lookups cover ids / names just created)
            self.compare(c, kind, ':' + tag if tag else '', obs=after)
        if self.graph_oracle and kind != 'generate_graph':
            self.check_graph(c, kind, checking)

    def key(self, c):
        ref = (sorted(c.r_assets.items(), key=repr), sorted(c.r_assocs.items(), key=repr),
               sorted(c.r_attackers.items(), key=repr), sorted(c.ever_ids),
               sorted(c.ever_names), c.freed_ids[-1:], c.freed_names[-1:],
               len(c.assets), len(c.assocs), len(c.attackers))
        return canon.key((c.model, repr(ref)))

    # -- graph oracle (C01 over models reached by edit histories)
    def plain(self, c):
        from .refs.sem import PlainModel
        assets = [(a['name'], a['type']) for _h, a in sorted(c.r_assets.items())]
        nm = {h: a['name'] for h, a in c.r_assets.items()}
        links = [(x['cls'], x['lf'], [nm[h] for h in x['L']], x['rf'], [nm[h] for h in x['R']])
                 for _g, x in sorted(c.r_assocs.items())]
        return PlainModel(assets, links)

    def check_graph(self, c, kind, checking=True):
        from maltoolbox.attackgraph import AttackGraph
        from .refs import inherit, sem
        if not hasattr(self, '_lang'):
            self._lang = sem.Lang(self.cfg['spec'])
            self._resolved = {}
        pm = self.plain(c)
        try:
            g = AttackGraph(self.fx.lang_graph, c.model)
        except Exception as e:  # noqa: BLE001
            if not checking:
                return
            raise Violation(f'graph_after:{kind}:generation_raised:{type(e).__name__}',
                            f'attack-graph generation on the model reached by this history raised {e}')
        if not checking:
            return
        nodes = {(str(n.asset.name), n.name): n for n in g.nodes}
        for name, t in pm.assets:
            if t not in self._resolved:
                self._resolved[t] = inherit.resolve(self.cfg['spec'], t)
            for sname, r in self._resolved[t].items():
                lo, hi = set(), set()
                for e in r['reaches']:
                    if e['type'] == 'attackStep':
                        a, tgt = ({name}, {name}), e['name']
                    else:
                        a, tgt = sem.ev(self._lang, pm, e['lhs'], {name}, {name}), e['rhs']['name']
                    lo |= {(x, tgt) for x in a[0]}
                    hi |= {(x, tgt) for x in a[1]}
                n = nodes.get((name, sname))
                if n is None:
                    raise Violation(f'graph_after:{kind}:node_missing', f'no node {name}:{sname}')
                got = {(str(ch.asset.name), ch.name) for ch in n.children}
                if not (lo <= got <= hi):
                    raise Violation(f'graph_after:{kind}:children_mismatch',
                                    f'children of {name}:{sname} on the model reached by this history differ from the MAL semantics',
                                    expected={'lo': sorted(lo), 'hi': sorted(hi)}, observed=sorted(got))
        if len(nodes) != sum(len(self._resolved[t]) for _n, t in pm.assets):
            raise Violation(f'graph_after:{kind}:node_set', 'node set is not assets x exposed steps')

    def op_generate_graph(self, c, op):
        def thunk():
            pass

        def commit(checking):
            self.check_graph(c, 'generate_graph', checking)
        return MUST_SUCCEED, thunk, commit, ''

    # -- add_asset
    def op_add_asset(self, c, op):
        _, t, name, aid, allow = op
        kw = {} if name is None else {'name': name}
        obj = getattr(self.fx.ns, t)(**kw)
        h = len(c.assets)
        c.assets.append(obj)
        live_ids = {a['id'] for a in c.r_assets.values()}
        live_names = {a['name'] for a in c.r_assets.values()}
        id_clash = aid is not None and aid in live_ids
        name_clash = name is not None and name in live_names
        tag = ('id=%s' % ('none' if aid is None else 'live' if id_clash else
                          'zero' if aid == 0 else 'neg' if aid < 0 else 'free')) + \
              (',name=%s' % ('none' if name is None else 'live' if name_clash else 'free')) + \
              ('' if allow else ',nodup')

        def thunk():
            c.model.add_asset(obj, asset_id=aid, allow_duplicate_names=allow)

        def commit(checking):
            rid = int(obj.id)
            rname = str(obj.name)
            if checking:
                if aid is not None and rid != aid:
                    raise Violation(f'add_asset:explicit_id_not_honoured:{tag}',
                                    f'requested id {aid}, asset got id {rid}', expected=aid, observed=rid)
                if rid in live_ids:
                    raise Violation(f'add_asset:id_not_unique:{tag}', f'id {rid} already held by a live asset')
                if name is not None and not name_clash and rname != name:
                    raise Violation(f'add_asset:free_name_not_honoured:{tag}',
                                    f'requested free name {name!r}, got {rname!r}')
                if rname in live_names:
                    raise Violation(f'add_asset:name_not_unique:{tag}',
                                    f'asset named {rname!r} although a live asset holds that name',
                                    observed=sorted(live_names) + [rname])
            c.r_assets[h] = {'id': rid, 'name': rname, 'type': t}
            c.ever_ids.add(rid)
            c.ever_names.add(rname)
        if id_clash or (name_clash and not allow):
            return MUST_RAISE, thunk, None, tag
        return MUST_SUCCEED, thunk, commit, tag

    def op_readd_asset(self, c, op):
        _, h, aid = op
        obj = c.assets[h]
        live_ids = {a['id'] for g, a in c.r_assets.items() if g != h}
        tag = 'id=%s' % ('none' if aid is None else 'live' if aid in live_ids else 'free')

        def thunk():
            c.model.add_asset(obj, asset_id=aid)
        # the asset is already in the model: whatever the call does, raising must change nothing
        return 'raise_unchanged_or_undetermined', thunk, None, tag

    def op_add_association_nonmember(self, c, op):
        _, cls, side, h, kind, shared = op
        ac = next(a for a in self.assoc_classes if a['cls'] == cls)
        other_t = ac['rt'] if side == 'L' else ac['lt']
        same_t = ac['lt'] if side == 'L' else ac['rt']
        outsider = None
        if kind == 'stale':
            want = same_t if shared else other_t
            for g in reversed(self._stale_assets(c)):
                o = c.assets[g]
                if self.is_sub(str(getattr(o, 'type', '')), want):
                    outsider = o
                    break
        if outsider is None:
            t = same_t if shared else other_t
            t = next((x for x in self.types if self.is_sub(x, t)), None)
            outsider = getattr(self.fx.ns, t)(name='outsider') if t else None
        live_obj = c.assets[h]
        err = None
        obj = None
        try:
            if outsider is None:
                raise ValueError('no concrete type for the outsider')
            if shared:
                # live member first, outsider second in the same field; the other field holds a live asset
                oc = [g for g in sorted(c.r_assets) if self.is_sub(c.r_assets[g]['type'], other_t)]
                if not oc:
                    raise ValueError('no live asset for the other field')
                mine, theirs = [live_obj, outsider], [c.assets[oc[0]]]
            else:
                mine, theirs = [live_obj], [outsider]
            lf, rf = (mine, theirs) if side == 'L' else (theirs, mine)
            obj = getattr(self.fx.ns, cls)(**{ac['lf']: lf, ac['rf']: rf})
        except Exception as e:  # noqa: BLE001
            err = e
        c.assocs.append(obj)
        tag = f'{cls},{side},{kind}' + (',shared' if shared else '')

        def thunk():
            if obj is None:
                raise err
            c.model.add_association(obj)
        return 'raise_unchanged_or_undetermined', thunk, None, tag

    # -- removal helpers on the reference
    def _ref_drop_member(self, c, a, g, real_kept):
        """Remove asset a from association g in the reference.  An association losing its last
        member on one side is removed or kept, whichever the implementation did (real_kept)."""
        x = c.r_assocs[g]
        L = [h for h in x['L'] if h != a]
        R = [h for h in x['R'] if h != a]
        if (not L or not R) and not real_kept:
            del c.r_assocs[g]
        else:
            x['L'], x['R'] = L, R

    def op_remove_asset(self, c, op):
        h = op[1]
        obj = c.assets[h]

        def thunk():
            c.model.remove_asset(obj)
        if h not in c.r_assets:
            # A stale object that carries the id of a live asset: an implementation that identifies assets
            # by id may legitimately act on the live one.  Only 'raises => nothing changed' is demanded then.
            sid = getattr(obj, 'id', None)
            if any(a['id'] == sid for a in c.r_assets.values()):
                return 'raise_unchanged_or_undetermined', thunk, None, 'stale_with_live_id'
            return ANY_UNCHANGED, thunk, None, 'stale'
        involved = [g for g, x in c.r_assocs.items() if h in x['L'] or h in x['R']]
        selfl = any(h in c.r_assocs[g]['L'] and h in c.r_assocs[g]['R'] for g in involved)
        tag = 'live' + (',selflinked' if selfl else '') + (',linked' if involved else '')

        def commit(checking):
            for g in involved:
                kept = any(c.assocs[g] is y for y in c.model.associations)
                self._ref_drop_member(c, h, g, kept)
            for t in c.r_attackers.values():
                t['eps'].pop(h, None)
            a = c.r_assets.pop(h)
            c.freed_ids.append(a['id'])
            c.freed_names.append(a['name'])
        return MUST_SUCCEED, thunk, commit, tag

    def op_add_association(self, c, op):
        _, cls, L, R = op
        ac = next(a for a in self.assoc_classes if a['cls'] == cls)
        g = len(c.assocs)
        try:
            obj = getattr(self.fx.ns, cls)(**{ac['lf']: [c.assets[h] for h in L],
                                              ac['rf']: [c.assets[h] for h in R]})
        except Exception as e:  # noqa: BLE001  construction itself rejected (repeated member etc.)
            obj = None
            err = e
        c.assocs.append(obj)
        rep = len(set(L)) < len(L) or len(set(R)) < len(R)
        dup = self._dup_link(c, cls, L, R)
        tag = cls + (',repeated' if rep else '') + (',duplink' if dup else '') + \
            (',overlap' if set(L) & set(R) else '')

        def thunk():
            if obj is None:
                raise err
            c.model.add_association(obj)

        def commit(checking):
            c.r_assocs[g] = {'cls': cls, 'lf': ac['lf'], 'rf': ac['rf'], 'L': list(L), 'R': list(R)}
        if rep or dup:
            return MUST_RAISE, thunk, None, tag
        return MUST_SUCCEED, thunk, commit, tag

    def op_remove_association(self, c, op):
        g = op[1]
        obj = c.assocs[g]

        def thunk():
            c.model.remove_association(obj)
        if g not in c.r_assocs:
            return ANY_UNCHANGED, thunk, None, 'stale'

        def commit(checking):
            del c.r_assocs[g]
        x = c.r_assocs[g]
        return MUST_SUCCEED, thunk, commit, 'live' + (',overlap' if set(x['L']) & set(x['R']) else '')

    def op_remove_asset_from_association(self, c, op):
        _, a, g = op
        aobj, xobj = c.assets[a], c.assocs[g]

        def thunk():
            c.model.remove_asset_from_association(aobj, xobj)
        valid = a in c.r_assets and g in c.r_assocs and \
            (a in c.r_assocs[g]['L'] or a in c.r_assocs[g]['R'])
        if not valid:
            why = 'stale_asset' if a not in c.r_assets else 'stale_assoc' if g not in c.r_assocs else 'non_member'
            return ANY_UNCHANGED, thunk, None, why
        x = c.r_assocs[g]
        last = (x['L'] == [a]) or (x['R'] == [a]) or not [h for h in x['L'] if h != a] or not [h for h in x['R'] if h != a]
        tag = ('last_member' if last else 'one_of_several') + (',overlap' if a in x['L'] and a in x['R'] else '')

        def commit(checking):
            kept = any(xobj is y for y in c.model.associations)
            self._ref_drop_member(c, a, g, kept)
        return MUST_SUCCEED, thunk, commit, tag

    def op_add_attacker(self, c, op):
        from maltoolbox.model import AttackerAttachment
        aid = op[1]
        g = len(c.attackers)
        obj = AttackerAttachment()
        c.attackers.append(obj)

        def thunk():
            c.model.add_attacker(obj, attacker_id=aid)

        def commit(checking):
            if checking and aid is not None and obj.id != aid:
                raise Violation('add_attacker:explicit_id_not_honoured', f'asked {aid} got {obj.id}')
            c.r_attackers[g] = {'id': obj.id, 'name': obj.name, 'eps': {}}
        return MUST_SUCCEED, thunk, commit, 'explicit' if aid is not None else 'auto'

    def op_add_attacker_prefilled(self, c, op):
        from maltoolbox.model import AttackerAttachment
        a = op[1]
        g = len(c.attackers)
        obj = AttackerAttachment()
        c.attackers.append(obj)
        s0 = self.ep_steps[0]
        live = a in c.r_assets

        split = len(op) > 2 and op[2] == 'split'

        def thunk():
            if split:
                obj.entry_points = [(c.assets[a], [s0]), (c.assets[a], [s0])]
            else:
                obj.add_entry_point(c.assets[a], s0)
            c.model.add_attacker(obj)

        def commit(checking):
            # an entry point on an asset that is not in the model must not become visible through the model
            c.r_attackers[g] = {'id': obj.id, 'name': obj.name, 'eps': ({a: [s0]} if live else {})}
        if live:
            return MUST_SUCCEED, thunk, commit, 'live_asset' + (',two_tuples' if split else '')
        return 'raise_unchanged_or_commit', thunk, commit, 'asset_not_in_model'

    def op_readd_attacker(self, c, op):
        g = op[1]
        obj = c.attackers[g]
        hof = {id(o): h for h, o in enumerate(c.assets)}

        def thunk():
            c.model.add_attacker(obj)
        if g in c.r_attackers:
            def commit(checking):     # already part of the model: it must not be listed a second time
                pass
            return 'raise_unchanged_or_commit', thunk, commit, 'live_attachment'

        def commit(checking):
            eps = {}
            for aobj, steps in obj.entry_points:
                h = hof.get(id(aobj))
                if h in c.r_assets:
                    eps[h] = list(steps)
            c.r_attackers[g] = {'id': obj.id, 'name': obj.name, 'eps': eps}
        return 'raise_unchanged_or_commit', thunk, commit, 'removed_attachment'

    def op_remove_attacker(self, c, op):
        g = op[1]
        obj = c.attackers[g]

        def thunk():
            c.model.remove_attacker(obj)
        if g not in c.r_attackers:
            return ANY_UNCHANGED, thunk, None, 'stale'

        def commit(checking):
            del c.r_attackers[g]
        return MUST_SUCCEED, thunk, commit, 'live'

    def op_remove_attacker_twin(self, c, op):
        """An attachment that was never given to the model but compares equal to a live one (same id,
        name and entry points): it is not part of the model, so removing it changes nothing."""
        import copy
        g = op[1]
        twin = copy.copy(c.attackers[g])
        twin.entry_points = list(twin.entry_points)

        def thunk():
            c.model.remove_attacker(twin)
        return ANY_UNCHANGED, thunk, None, 'equal_twin'

    def op_add_entry_point(self, c, op):
        _, g, a, s = op
        att, aobj = c.attackers[g], c.assets[a]

        def thunk():
            att.add_entry_point(aobj, s)

        def commit(checking):
            eps = c.r_attackers[g]['eps']
            if s not in eps.setdefault(a, []):
                eps[a].append(s)
        return MUST_SUCCEED, thunk, commit, 'repeat' if s in c.r_attackers[g]['eps'].get(a, []) else 'new'

    def op_remove_entry_point(self, c, op):
        _, g, a, s = op
        att, aobj = c.attackers[g], c.assets[a]

        def thunk():
            att.remove_entry_point(aobj, s)
        present = s in c.r_attackers[g]['eps'].get(a, [])

        def commit(checking):
            eps = c.r_attackers[g]['eps']
            if present:
                eps[a].remove(s)
                if not eps[a]:
                    del eps[a]
        return MUST_SUCCEED, thunk, commit, 'present' if present else 'absent'


def _has_id_and_name(obj):
    """an asset object that was given an id and a name at some point (one whose add_asset was rejected has neither)"""
    try:
        return obj.id is not None and int(obj.id) == int(obj.id) and obj.name is not None
    except Exception:  # noqa: BLE001
        return False


def _s(x):
    if isinstance(x, dict):
        return {str(k): _s(v) for k, v in x.items()}
    if isinstance(x, (list, tuple)):
        return [_s(v) for v in x]
    return x
