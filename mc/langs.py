"""Language specifications as plain dicts in malc's langspec.json layout, plus fixture loading.

Names never use the single letters C, I, A, E: mal.g4 lexes them as keywords everywhere.
"""
import copy
import json
import os
import zipfile

# --------------------------------------------------------------------------- expression builders


def F(name):
    return {'type': 'field', 'name': name}


def S(name):
    return {'type': 'attackStep', 'name': name}


def V(name):
    return {'type': 'variable', 'name': name}


def COL(lhs, rhs):
    return {'type': 'collect', 'lhs': lhs, 'rhs': rhs}


def UNI(lhs, rhs):
    return {'type': 'union', 'lhs': lhs, 'rhs': rhs}


def INT(lhs, rhs):
    return {'type': 'intersection', 'lhs': lhs, 'rhs': rhs}


def DIF(lhs, rhs):
    return {'type': 'difference', 'lhs': lhs, 'rhs': rhs}


def TRA(e):
    return {'type': 'transitive', 'stepExpression': e}


def SUB(t, e):
    return {'type': 'subType', 'subType': t, 'stepExpression': e}


def fn(name, *args):
    return {'type': 'function', 'name': name, 'arguments': list(args)}


# --------------------------------------------------------------------------- declarations


def step(name, type='or', reaches=None, overrides=True, requires=None, ttc=None, tags=(),
         meta=None, risk=None):
    return {
        'name': name, 'meta': dict(meta or {}), 'type': type, 'tags': list(tags), 'risk': risk,
        'ttc': ttc,
        'requires': None if requires is None else {'overrides': True,
                                                   'stepExpressions': list(requires)},
        'reaches': None if reaches is None else {'overrides': overrides,
                                                 'stepExpressions': list(reaches)},
    }


def asset(name, sup=None, steps=(), variables=(), abstract=False, category='Cat', meta=None):
    return {
        'name': name, 'meta': dict(meta or {}), 'category': category, 'isAbstract': abstract,
        'superAsset': sup,
        'variables': [{'name': n, 'stepExpression': e} for n, e in variables],
        'attackSteps': list(steps),
    }


def mult(m):
    """'1' '0..1' '*' '1..*' '0..*' '2' '2..3' -> {'min','max'} as malc writes them."""
    if isinstance(m, dict):
        return dict(m)
    if '..' in m:
        lo, hi = m.split('..')
    else:
        lo, hi = m, m
    lo = 0 if lo == '*' else int(lo)
    hi = None if hi == '*' else int(hi)
    return {'min': lo, 'max': hi}


def assoc(name, left_asset, left_field, left_mult, right_mult, right_field, right_asset,
          meta=None):
    """Same order as MAL source:  Left [leftField] lm <-- Name --> rm [rightField] Right."""
    return {
        'name': name, 'meta': dict(meta or {}),
        'leftAsset': left_asset, 'leftField': left_field, 'leftMultiplicity': mult(left_mult),
        'rightAsset': right_asset, 'rightField': right_field,
        'rightMultiplicity': mult(right_mult),
    }


def spec(assets, associations=(), lang_id='org.verif.lang', version='1.0.0', categories=None,
         defines=None):
    cats = categories
    if cats is None:
        seen = []
        for a in assets:
            if a['category'] not in seen:
                seen.append(a['category'])
        cats = [{'name': c, 'meta': {}} for c in seen]
    d = {'id': lang_id, 'version': version}
    d.update(defines or {})
    return {
        'formatVersion': '1.0.0', 'defines': d, 'categories': cats,
        'assets': list(assets), 'associations': list(associations),
    }


# --------------------------------------------------------------------------- fixtures


def mar_spec(path):
    with zipfile.ZipFile(path) as z:
        return json.loads(z.read('langspec.json'))


class Fixture:
    """A loaded language: spec snapshot, LanguageGraph, classes factory.

    The snapshot taken at load time is what 'leaves the specification unmodified' is compared
    against (fixture integrity, DESIGN 2.1)."""

    def __init__(self, spec_dict, build_classes=True):
        from maltoolbox.language import LanguageGraph, LanguageClassesFactory
        self.pristine = copy.deepcopy(spec_dict)
        self.spec = copy.deepcopy(spec_dict)
        try:
            self.lang_graph = LanguageGraph(self.spec)
            self.contaminated_at_load = self.spec != self.pristine
            self.factory = LanguageClassesFactory(self.lang_graph) if build_classes else None
        except RecursionError:
            raise
        except Exception as e:  # noqa: BLE001
            # every language the checks build is well-formed: being unable to load it is a finding
            from .common import Violation
            raise Violation(f'wellformed_language_rejected:{type(e).__name__}',
                            f'a well-formed language could not be loaded: {str(e)[:400]}',
                            case={'language_id': spec_dict.get('defines', {}).get('id')})

    def intact(self):
        return self.spec == self.pristine and self.lang_graph._lang_spec is self.spec

    @property
    def ns(self):
        return self.factory.ns


_FIX = {}
_FIX_MAX = 8


def fixture(spec_dict, key=None, fresh=False):
    """Cached per process; a contaminated fixture is discarded and rebuilt."""
    k = key or json.dumps(spec_dict, sort_keys=True)
    fx = _FIX.pop(k, None)
    if fresh or fx is None or not fx.intact():
        fx = Fixture(spec_dict)
    _FIX[k] = fx                      # most recently used last
    while len(_FIX) > _FIX_MAX:       # a language graph of a 120-step language weighs hundreds of MB
        _FIX.pop(next(iter(_FIX)))
    return fx


# --------------------------------------------------------------------------- subtype helpers on specs


def parents_of(sp):
    return {a['name']: a['superAsset'] for a in sp['assets']}


def ancestors(sp, t):
    """t, parent(t), ... root"""
    par = parents_of(sp)
    out = []
    while t:
        out.append(t)
        t = par.get(t)
    return out


def is_sub(sp, t, u):
    return u in ancestors(sp, t)
